// vsim core: PRNG, plans (explicit traces), shared-memory result block,
// counters, violation reporting.  No libvata headers here.
#pragma once
#include <cstdint>
#include <cstdio>
#include <cstring>
#include <string>
#include <vector>
#include <map>
#include <set>
#include <functional>
#include "simheap.hh"

namespace vsim {

// ---------------------------------------------------------------- PRNG
struct Rng {
	uint64_t s[4];
	explicit Rng(uint64_t seed = 1) { reseed(seed); }
	void reseed(uint64_t seed) {
		uint64_t z = seed;
		for (int i = 0; i < 4; ++i) {
			z += 0x9e3779b97f4a7c15ull;
			uint64_t x = z; x = (x ^ (x >> 30)) * 0xbf58476d1ce4e5b9ull; x = (x ^ (x >> 27)) * 0x94d049bb133111ebull;
			s[i] = x ^ (x >> 31);
		}
	}
	static inline uint64_t rotl(uint64_t x, int k) { return (x << k) | (x >> (64 - k)); }
	uint64_t next() {
		uint64_t r = rotl(s[1] * 5, 7) * 9, t = s[1] << 17;
		s[2] ^= s[0]; s[3] ^= s[1]; s[1] ^= s[2]; s[0] ^= s[3]; s[2] ^= t; s[3] = rotl(s[3], 45);
		return r;
	}
	uint64_t below(uint64_t n) { return n ? next() % n : 0; }
	int range(int lo, int hi) { return lo + int(below(uint64_t(hi - lo + 1))); }   // inclusive
	bool chance(int num, int den) { return int(below(uint64_t(den))) < num; }
	template <class V> const typename V::value_type& pick(const V& v) { return v[below(v.size())]; }
};
inline uint64_t mix64(uint64_t a, uint64_t b) {
	uint64_t z = a * 0x9e3779b97f4a7c15ull + b + 0x632be59bd9b4e019ull;
	z = (z ^ (z >> 30)) * 0xbf58476d1ce4e5b9ull; z = (z ^ (z >> 27)) * 0x94d049bb133111ebull; return z ^ (z >> 31);
}
inline uint64_t hash_str(const std::string& s, uint64_t h = 0xcbf29ce484222325ull) {
	for (unsigned char c : s) { h ^= c; h *= 0x100000001b3ull; } return h;
}

// ---------------------------------------------------------------- plan = explicit trace
struct Step {
	int client = 0;
	std::string op;
	std::vector<long> a;     // integer arguments (handle slots are taken modulo the live handles)
	std::string lit;         // literal payload (automaton literal, text, map), no newlines
	long arg(size_t i, long def = 0) const { return i < a.size() ? a[i] : def; }
};

struct Env {
	int place = 0, reuse = 0, noise = 0;
	uint64_t layout_seed = 1, noise_seed = 1;
	int stack_noise = 0;
	int passthrough = 0;
};

struct Plan {
	std::string profile;         // property id, e.g. "C11"
	std::string tier = "quick";
	uint64_t seed = 0;
	Env env;
	int clients = 1;
	std::vector<Step> steps;
	// filled in replay files
	std::string expect_oracle, expect_site, expect_detail;
	long expect_step = -1;
	std::string fingerprint;
};

std::string plan_to_text(const Plan& p);
bool plan_from_text(const std::string& text, Plan& p, std::string* err = nullptr);
std::string escape(const std::string& s);
std::string unescape(const std::string& s);

// ---------------------------------------------------------------- counters
// Every counter is incremented by the child directly in the shared result
// block, so a run that crashes still contributes what it did.
#define VSIM_COUNTERS(X) \
	X(steps) X(steps_noop) X(api_calls) X(oracle_evals) X(oracle_nontrivial) \
	X(verdict_true) X(verdict_false) X(exceptions_expected) X(notimpl_thrown) \
	X(handles_created) X(handles_destroyed) X(handles_shared) X(cow_writes_on_shared) \
	X(client_switches) X(client_aborts) X(client_restarts) X(churn_ops) \
	X(alloc_events) X(addr_reused) X(addr_reused_same_step) X(placed_out_of_order) \
	X(stack_noise_fills) X(noise_diff_pairs) \
	X(file_faults_truncate) X(file_faults_linedrop) X(file_faults_linedup) X(file_faults_lineswap) \
	X(file_faults_byteflip) X(file_faults_zerotail) X(file_faults_garbage) X(file_faults_splice) \
	X(file_loads_ok) X(file_loads_rejected) X(file_roundtrips) X(readfile_real) \
	X(model_too_big) X(known_finding_hits) X(repeat_checks) X(twin_checks) X(law_checks) \
	X(sim_pairs_checked) X(iter_steps) X(iter_interleaved_mutations) X(mtbdd_values_checked) \
	X(mtbdd_canon_checks) X(mtbdd_baseline_checks) X(corpus_ops) X(corpus_inconclusive) \
	X(lang_nonempty) X(lang_empty) X(reread_handles) X(operand_rechecks) X(budget_inconclusive)

enum Counter {
#define X(n) c_##n,
	VSIM_COUNTERS(X)
#undef X
	C_COUNT
};
extern const char* const counter_names[];

// ---------------------------------------------------------------- shared result block
static const size_t SHM_PLAN_MAX = 1 << 20;
static const size_t SHM_HASHES = 4096;
struct Shm {
	volatile int32_t  status;           // 0 running, 1 finished ok, 2 violation, 3 harness error
	volatile int32_t  cur_step;
	volatile int32_t  budget_policy;    // 0: exhausting the step's tick budget is a violation (hang); 1: inconclusive
	char     cur_op[64];
	char     oracle[96];
	char     site[160];
	char     detail[4096];
	uint64_t fingerprint;
	uint64_t obs_digest;                // digest of every concrete observable (noise differential)
	uint64_t ticks;
	uint64_t counters[C_COUNT];
	uint32_t n_case_hashes;
	uint64_t case_hashes[SHM_HASHES];   // hashes of non-trivial cases (for distinct_nontrivial)
	uint32_t known_hits;                // number of known-finding entries hit
	char     known_lines[8][256];
	char     sample[4096];
	uint32_t plan_len;
	char     plan[SHM_PLAN_MAX];
};
extern Shm* g_shm;                      // set in the child
extern uint64_t g_run_index;            // index of the run within the batch (systematic enumerations use it)

inline void count(Counter c, uint64_t n = 1) { if (g_shm) g_shm->counters[c] += n; }
void note_case(uint64_t hash);         // a distinct non-trivial case
void set_sample(const std::string& s); // first sample of a run wins
void observe(uint64_t v);              // mix into the observable digest
void observe(const std::string& s);
// Name the call site of the API call that follows (used for crash / hang reports) and say what
// exhausting the tick budget means there: a hang (violation) or, for algorithms that are
// legitimately exponential, an inconclusive run.
enum BudgetPolicy { BUDGET_HANG = 0, BUDGET_INCONCLUSIVE = 1 };
void api_site(const std::string& site, BudgetPolicy pol = BUDGET_HANG, uint64_t budget = 0);

// ---------------------------------------------------------------- known findings
struct KnownFinding { std::string property, oracle, site, text; bool fixed = false; };
extern std::vector<KnownFinding> g_known;
bool load_known_findings(const std::string& path);

// Report a violation.  If (property, oracle, site) is listed as a known
// finding, it is counted and execution continues (returns); otherwise the
// result block is filled in and the child exits at once.
void violation(const std::string& oracle, const std::string& site, const std::string& detail);
[[noreturn]] void harness_error(const std::string& what);
inline std::string property_of(const std::string& oracle) { return oracle.substr(0, oracle.find('.')); }

// ---------------------------------------------------------------- driver side
struct RunResult {
	int status = 0;            // 1 ok, 2 violation, 3 harness error
	bool crashed = false; int sig = 0; int exit_code = 0; bool timed_out = false;
	std::string oracle, site, detail; long step = -1; std::string op;
	uint64_t fingerprint = 0, obs_digest = 0, ticks = 0;
	std::vector<uint64_t> counters;
	std::vector<uint64_t> case_hashes;
	std::vector<std::string> known_lines;
	std::string sample;
	std::string plan_text;
	std::string stderr_tail;
	std::string vclass() const { return oracle + "|" + site; }
};

// Executes in a forked child of the calling (pristine) process.
// If plan == nullptr the child generates the plan from (profile, tier, seed).
RunResult run_in_child(const Plan* plan, const std::string& profile, const std::string& tier, uint64_t seed,
                       int wall_limit_s, const Env* env_override = nullptr);

// implemented by the profile layer (world.cc)
Plan generate_plan(const std::string& profile, const std::string& tier, uint64_t seed);
void execute_plan(const Plan& plan);    // runs in the child, after begin_run
std::vector<std::string> all_profiles();

} // namespace vsim
