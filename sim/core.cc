#include "core.hh"

#include <sys/mman.h>
#include <sys/wait.h>
#include <sys/stat.h>
#include <fcntl.h>
#include <unistd.h>
#include <signal.h>
#include <sstream>
#include <fstream>
#include <cstdlib>

namespace vsim {

void cli_prepare();      // ops_cli.cc: scratch directory of the command-line steps, computed outside the simulated heap

const char* const counter_names[] = {
#define X(n) #n,
	VSIM_COUNTERS(X)
#undef X
	nullptr
};

Shm* g_shm = nullptr;
uint64_t g_run_index = 0;
std::vector<KnownFinding> g_known;

// ---------------------------------------------------------------- text helpers
std::string escape(const std::string& s) {
	std::string r;
	for (unsigned char c : s) {
		if (c == '\\') r += "\\\\";
		else if (c == '\n') r += "\\n";
		else if (c == '\r') r += "\\r";
		else if (c == '\t') r += "\\t";
		else if (c < 32 || c >= 127) { char b[8]; snprintf(b, sizeof b, "\\x%02x", c); r += b; }
		else r += char(c);
	}
	return r;
}
std::string unescape(const std::string& s) {
	std::string r;
	for (size_t i = 0; i < s.size(); ++i) {
		if (s[i] != '\\' || i + 1 >= s.size()) { r += s[i]; continue; }
		char n = s[++i];
		if (n == 'n') r += '\n'; else if (n == 'r') r += '\r'; else if (n == 't') r += '\t'; else if (n == '\\') r += '\\';
		else if (n == 'x' && i + 2 < s.size() + 0 && i + 2 <= s.size() - 1 + 1) {
			std::string h = s.substr(i + 1, 2); r += char(strtol(h.c_str(), nullptr, 16)); i += 2;
		} else r += n;
	}
	return r;
}

std::string plan_to_text(const Plan& p) {
	std::ostringstream o;
	o << "vsim-plan 1\n";
	o << "profile " << p.profile << "\n";
	o << "tier " << p.tier << "\n";
	o << "seed " << p.seed << "\n";
	o << "env place=" << p.env.place << " reuse=" << p.env.reuse << " noise=" << p.env.noise
	  << " layout_seed=" << p.env.layout_seed << " noise_seed=" << p.env.noise_seed
	  << " stack_noise=" << p.env.stack_noise << " passthrough=" << p.env.passthrough << "\n";
	o << "# place: " << simheap::place_name(p.env.place) << ", reuse: " << simheap::reuse_name(p.env.reuse)
	  << ", noise: " << simheap::noise_name(p.env.noise) << "\n";
	o << "clients " << p.clients << "\n";
	for (const Step& s : p.steps) {
		o << "step " << s.client << " " << s.op;
		for (long v : s.a) o << " " << v;
		if (!s.lit.empty()) o << " | " << escape(s.lit);
		o << "\n";
	}
	if (!p.expect_oracle.empty()) {
		o << "expect_oracle " << p.expect_oracle << "\n";
		o << "expect_site " << escape(p.expect_site) << "\n";
		o << "expect_step " << p.expect_step << "\n";
		o << "expect_detail " << escape(p.expect_detail) << "\n";
	}
	if (!p.fingerprint.empty()) o << "fingerprint " << p.fingerprint << "\n";
	return o.str();
}

static std::map<std::string, std::string> parse_kv(const std::string& line) {
	std::map<std::string, std::string> m; std::istringstream is(line); std::string tok;
	while (is >> tok) { size_t e = tok.find('='); if (e != std::string::npos) m[tok.substr(0, e)] = tok.substr(e + 1); }
	return m;
}

bool plan_from_text(const std::string& text, Plan& p, std::string* err) {
	std::istringstream in(text); std::string line; bool header = false;
	p = Plan();
	while (std::getline(in, line)) {
		if (line.empty() || line[0] == '#') continue;
		size_t sp = line.find(' ');
		std::string key = line.substr(0, sp), rest = sp == std::string::npos ? "" : line.substr(sp + 1);
		if (key == "vsim-plan") header = true;
		else if (key == "profile") p.profile = rest;
		else if (key == "tier") p.tier = rest;
		else if (key == "seed") p.seed = strtoull(rest.c_str(), nullptr, 10);
		else if (key == "clients") p.clients = atoi(rest.c_str());
		else if (key == "env") {
			auto m = parse_kv(rest);
			p.env.place = atoi(m["place"].c_str()); p.env.reuse = atoi(m["reuse"].c_str()); p.env.noise = atoi(m["noise"].c_str());
			p.env.layout_seed = strtoull(m["layout_seed"].c_str(), nullptr, 10);
			p.env.noise_seed = strtoull(m["noise_seed"].c_str(), nullptr, 10);
			p.env.stack_noise = atoi(m["stack_noise"].c_str()); p.env.passthrough = atoi(m["passthrough"].c_str());
		}
		else if (key == "step") {
			Step s; std::string head = rest, lit;
			size_t bar = rest.find(" | ");
			if (bar != std::string::npos) { head = rest.substr(0, bar); lit = rest.substr(bar + 3); }
			std::istringstream hs(head); hs >> s.client >> s.op; long v; while (hs >> v) s.a.push_back(v);
			s.lit = unescape(lit);
			p.steps.push_back(s);
		}
		else if (key == "expect_oracle") p.expect_oracle = rest;
		else if (key == "expect_site") p.expect_site = unescape(rest);
		else if (key == "expect_step") p.expect_step = atol(rest.c_str());
		else if (key == "expect_detail") p.expect_detail = unescape(rest);
		else if (key == "fingerprint") p.fingerprint = rest;
		else { if (err) *err = "unknown line: " + line; return false; }
	}
	if (!header) { if (err) *err = "missing vsim-plan header"; return false; }
	return true;
}

// ---------------------------------------------------------------- child-side reporting
static void copy_str(char* dst, size_t cap, const std::string& s) {
	size_t n = s.size() < cap - 1 ? s.size() : cap - 1; memcpy(dst, s.data(), n); dst[n] = 0;
}

void note_case(uint64_t h) {
	if (!g_shm) return;
	count(c_oracle_nontrivial);
	if (g_shm->n_case_hashes < SHM_HASHES) g_shm->case_hashes[g_shm->n_case_hashes++] = h;
}
void set_sample(const std::string& s) { if (g_shm && !g_shm->sample[0]) copy_str(g_shm->sample, sizeof g_shm->sample, s); }
void observe(uint64_t v) { if (g_shm) g_shm->obs_digest = mix64(g_shm->obs_digest, v); }
void observe(const std::string& s) { observe(hash_str(s)); }
void api_site(const std::string& site, BudgetPolicy pol, uint64_t budget) {
	if (g_shm) { copy_str(g_shm->cur_op, sizeof g_shm->cur_op, site); g_shm->budget_policy = pol; }
	simheap::set_step_budget(budget); simheap::reset_step_ticks();
}

bool load_known_findings(const std::string& path) {
	std::ifstream in(path); if (!in) return false;
	std::string line;
	while (std::getline(in, line)) {
		if (line.empty() || line[0] == '#') continue;
		KnownFinding k;
		if (line.compare(0, 6, "known:") == 0) k.fixed = false;
		else if (line.compare(0, 6, "fixed:") == 0) k.fixed = true;
		else continue;
		auto m = parse_kv(line.substr(6));
		k.property = m["property"]; k.oracle = m["oracle"]; k.site = m["site"];
		k.text = line.substr(6);
		g_known.push_back(k);
	}
	return true;
}

static const KnownFinding* find_known(const std::string& oracle, const std::string& site) {
	for (const auto& k : g_known)
		if (!k.fixed && k.oracle == oracle && k.site == site) return &k;
	return nullptr;
}

#ifdef VSIM_COV
extern "C" void __gcov_dump(void);
#endif
static void finish_child(int status) {
	if (g_shm) {
		g_shm->fingerprint = simheap::fingerprint();
		const simheap::Stats& st = simheap::stats();
		g_shm->ticks = st.ticks;
		g_shm->counters[c_alloc_events] += st.allocs + st.frees;
		g_shm->counters[c_addr_reused] += st.reused;
		g_shm->counters[c_addr_reused_same_step] += st.reused_same_step;
		g_shm->counters[c_placed_out_of_order] += st.out_of_order;
		g_shm->status = status;
	}
	fflush(nullptr);
#ifdef VSIM_COV
	simheap::end_run(); __gcov_dump();      // coverage build only: children leave through _exit, which would lose their counters
#endif
	_exit(0);
}

void violation(const std::string& oracle, const std::string& site, const std::string& detail) {
	if (const KnownFinding* k = find_known(oracle, site)) {
		count(c_known_finding_hits);
		if (g_shm) {
			bool seen = false;
			for (uint32_t i = 0; i < g_shm->known_hits; ++i) if (k->text == g_shm->known_lines[i]) seen = true;
			if (!seen && g_shm->known_hits < 8) copy_str(g_shm->known_lines[g_shm->known_hits++], 256, k->text);
		}
		return;
	}
	if (!g_shm) { fprintf(stderr, "VIOLATION(no shm) %s %s %s\n", oracle.c_str(), site.c_str(), detail.c_str()); _exit(1); }
	copy_str(g_shm->oracle, sizeof g_shm->oracle, oracle);
	copy_str(g_shm->site, sizeof g_shm->site, site);
	copy_str(g_shm->detail, sizeof g_shm->detail, detail);
	finish_child(2);
}

void harness_error(const std::string& what) {
	if (g_shm) { copy_str(g_shm->oracle, sizeof g_shm->oracle, "harness"); copy_str(g_shm->detail, sizeof g_shm->detail, what); finish_child(3); }
	fprintf(stderr, "harness error: %s\n", what.c_str()); _exit(3);
}

// ---------------------------------------------------------------- driver side
static Shm* parent_shm() {
	static Shm* shm = nullptr; static pid_t owner = 0;
	if (!shm || owner != getpid()) {
		void* p = mmap(nullptr, sizeof(Shm), PROT_READ | PROT_WRITE, MAP_SHARED | MAP_ANONYMOUS, -1, 0);
		if (p == MAP_FAILED) { perror("mmap shm"); exit(2); }
		shm = (Shm*)p; owner = getpid();
	}
	return shm;
}

static std::string g_profile_for_budget;
static void budget_exceeded() {
	std::string op = g_shm ? std::string(g_shm->cur_op) : "?";
	simheap::end_run();   // the report itself allocates
	if (g_shm && g_shm->budget_policy == BUDGET_INCONCLUSIVE) { count(c_budget_inconclusive); finish_child(1); }
	violation(g_profile_for_budget + ".hang", op, "step exceeded its tick budget (" + std::to_string(simheap::step_ticks()) + " allocator events) without returning");
	finish_child(1);     // listed as known: the run ends here, nothing more can be checked
}

static std::string err_path() {
	static std::string p; static pid_t owner = 0;
	if (owner != getpid()) {
		const char* d = getenv("VSIM_TMP"); std::string dir = d ? d : "build/tmp";
		mkdir(dir.c_str(), 0777);
		p = dir + "/err-" + std::to_string(getpid()) + ".txt"; owner = getpid();
	}
	return p;
}

static std::string read_tail(const std::string& path, size_t max) {
	std::ifstream in(path, std::ios::binary); if (!in) return "";
	std::string s((std::istreambuf_iterator<char>(in)), std::istreambuf_iterator<char>());
	if (s.size() > max) s = s.substr(0, max / 2) + "\n...\n" + s.substr(s.size() - max / 2);
	return s;
}

static const char* sig_name(int s) {
	switch (s) { case SIGSEGV: return "SIGSEGV"; case SIGABRT: return "SIGABRT"; case SIGBUS: return "SIGBUS";
		case SIGFPE: return "SIGFPE"; case SIGILL: return "SIGILL"; case SIGALRM: return "SIGALRM"; case SIGKILL: return "SIGKILL"; default: return "SIG?"; }
}

static std::string sanitizer_kind(const std::string& err) {
	size_t p = err.find("ERROR: AddressSanitizer: ");
	if (p != std::string::npos) { size_t b = p + 25, e = err.find_first_of(" \n", b); return "asan:" + err.substr(b, e - b); }
	p = err.find("runtime error: ");
	if (p != std::string::npos) {
		size_t b = p + 15, e = err.find('\n', b); std::string m = err.substr(b, e - b);
		// keep the kind, drop addresses and numbers
		std::string k; for (char c : m) { if (isdigit((unsigned char)c)) break; k += c; }
		while (!k.empty() && (k.back() == ' ' || k.back() == 'x')) k.pop_back();
		return "ubsan:" + k;
	}
	return "sanitizer";
}

RunResult run_in_child(const Plan* plan, const std::string& profile, const std::string& tier, uint64_t seed,
                       int wall_limit_s, const Env* env_override) {
	Shm* shm = parent_shm();
	memset((void*)shm, 0, offsetof(Shm, plan));
	shm->plan_len = 0;
	std::string ep = err_path();
	fflush(nullptr);
	pid_t pid = fork();
	if (pid < 0) { perror("fork"); exit(2); }
	if (pid == 0) {
		g_shm = shm;
		int fd = open(ep.c_str(), O_WRONLY | O_CREAT | O_TRUNC, 0666);
		if (fd >= 0) { dup2(fd, 2); close(fd); }
		signal(SIGALRM, SIG_DFL);
		alarm(wall_limit_s > 0 ? wall_limit_s : 60);
		Plan local;
		if (!plan) { local = generate_plan(profile, tier, seed); plan = &local; }
		if (env_override) { local = *plan; local.env = *env_override; plan = &local; }
		std::string txt = plan_to_text(*plan);
		if (txt.size() >= SHM_PLAN_MAX) txt = txt.substr(0, SHM_PLAN_MAX - 1);
		memcpy(shm->plan, txt.data(), txt.size()); shm->plan_len = uint32_t(txt.size());
		g_profile_for_budget = plan->profile;
		simheap::Config c;
		c.place = plan->env.place; c.reuse = plan->env.reuse; c.noise = plan->env.noise;
		c.layout_seed = plan->env.layout_seed; c.noise_seed = plan->env.noise_seed;
		c.passthrough = plan->env.passthrough != 0 || getenv("VSIM_PASSTHROUGH") != nullptr;    // valgrind tier: real malloc, ticks still counted
		if (const char* b = getenv("VSIM_TICK_BUDGET")) c.step_tick_budget = strtoull(b, nullptr, 10);
		simheap::set_budget_handler(budget_exceeded);
		cli_prepare();
		simheap::begin_run(c);
		execute_plan(*plan);
		finish_child(1);
	}
	int st = 0;
	while (waitpid(pid, &st, 0) < 0 && errno == EINTR) {}
	RunResult r;
	r.status = shm->status;
	r.step = shm->cur_step; r.op = shm->cur_op;
	r.fingerprint = shm->fingerprint; r.obs_digest = shm->obs_digest; r.ticks = shm->ticks;
	r.counters.assign(shm->counters, shm->counters + C_COUNT);
	r.case_hashes.assign(shm->case_hashes, shm->case_hashes + shm->n_case_hashes);
	for (uint32_t i = 0; i < shm->known_hits && i < 8; ++i) r.known_lines.push_back(shm->known_lines[i]);
	r.sample = shm->sample;
	r.plan_text.assign(shm->plan, shm->plan_len);
	std::string prof = plan ? plan->profile : profile;
	if (r.status == 2) { r.oracle = shm->oracle; r.site = shm->site; r.detail = shm->detail; }
	else if (r.status == 3) { r.oracle = "harness"; r.detail = shm->detail; }
	else if (r.status != 1) {
		// died without reporting
		r.crashed = true;
		if (WIFSIGNALED(st)) {
			r.sig = WTERMSIG(st);
			r.stderr_tail = read_tail(ep, 6000);
			if (r.sig == SIGALRM) { r.timed_out = true; r.oracle = prof + ".hang-wall"; r.site = r.op; r.detail = "wall-clock backstop hit inside step " + std::to_string(r.step) + " (" + r.op + ")"; }
			else if (r.sig == SIGABRT && r.stderr_tail.find("/debug/") != std::string::npos && r.stderr_tail.find("Error: ") != std::string::npos) {
				// libstdc++ debug mode (dbg flavour): a container or iterator precondition was violated
				size_t a = r.stderr_tail.find("Error: "), b = r.stderr_tail.find('.', a); std::string what = r.stderr_tail.substr(a + 7, (b == std::string::npos ? a + 120 : b) - a - 7);
				for (char& ch : what) if (ch == '\n') ch = ' ';
				while (what.find("  ") != std::string::npos) what.erase(what.find("  "), 1);
				r.oracle = prof + ".stl-precondition"; r.site = r.op + ":" + what.substr(0, 90);
				r.detail = "libstdc++ debug mode aborted inside step " + std::to_string(r.step) + " (" + r.op + "): " + what + "\n" + r.stderr_tail;
			}
			else { r.oracle = prof + ".crash"; r.site = r.op + ":" + sig_name(r.sig); r.detail = std::string(sig_name(r.sig)) + " inside step " + std::to_string(r.step) + " (" + r.op + ")\n" + r.stderr_tail; }
			r.status = 2;
		} else {
			r.exit_code = WEXITSTATUS(st);
			r.stderr_tail = read_tail(ep, 6000);
			if (r.exit_code == 77) { r.oracle = prof + ".sanitizer"; r.site = r.op + ":" + sanitizer_kind(r.stderr_tail); r.status = 2; }
			else { r.oracle = prof + ".crash"; r.site = r.op + ":exit" + std::to_string(r.exit_code); r.status = 2; }
			r.detail = "process exited with code " + std::to_string(r.exit_code) + " inside step " + std::to_string(r.step) + " (" + r.op + ")\n" + r.stderr_tail;
		}
		// a crash that matches a listed known finding is a known finding
		if (find_known(r.oracle, r.site)) {
			const KnownFinding* k = find_known(r.oracle, r.site);
			r.known_lines.push_back(k->text); r.status = 1; r.counters[c_known_finding_hits] += 1;
		}
	}
	return r;
}

} // namespace vsim
