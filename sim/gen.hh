// seeded generators for automata, maps and environments
#pragma once
#include "core.hh"
#include "model.hh"

namespace gen {
using vsim::Rng;

typedef std::vector<mdl::Sym> Pool;

Pool make_pool(Rng& r, int max_syms, int max_rank);

struct TAOpts {
	int max_states = 5;
	int max_rules = -1;       // -1: 2n+3
	bool sparse = false;      // sparse state numbers (< 1500)
	long base = 0;            // first dense state number
	int flavor = -1;          // -1 drawn; see gen.cc
};
mdl::TA gen_ta(Rng& r, const Pool& pool, const TAOpts& o);
mdl::TA derive_ta(Rng& r, const Pool& pool, const mdl::TA& a, int kind);   // superset / subset / tweak / copy
mdl::TA wide_pair_smaller(Rng& r, mdl::TA& bigger);                        // C07 shape: children with several macro-states
mdl::TA repeat_pair_smaller(Rng& r, mdl::TA& bigger);                      // one state at several child positions, macro-states discovered one after the other
void permute_syms(Rng& r, mdl::TA& A, mdl::TA& B);                           // drawn bijection on the symbol names of both (registration / BDD code order)
// a pair (A, B) for inclusion checks: mostly near misses (B = A minus / tweaked / two cross-linked copies), some supersets, some independent
void gen_incl_pair(Rng& r, const Pool& pool, int max_states, bool sparse, mdl::TA& A, mdl::TA& B);

mdl::FA gen_fa(Rng& r, const std::vector<std::string>& syms, int max_states, bool sparse = false);
mdl::FA derive_fa(Rng& r, const std::vector<std::string>& syms, const mdl::FA& a, int kind);
// NFA pair for inclusion checks: a dense nondeterministic bigger automaton (macro-states of several states) and a smaller one that is mostly a near miss of it
void gen_fa_incl_pair(Rng& r, const std::vector<std::string>& sa, const std::vector<std::string>& sb, int max_states, mdl::FA& A, mdl::FA& B);

void monadic_pair(Rng& r, mdl::TA& A, mdl::TA& B);                           // a word-automaton pair embedded as monadic tree automata (unary rules, leaf rules for start states)

vsim::Env gen_env(Rng& r, bool allow_never = true);

// merge per-client programs into one schedule
std::vector<vsim::Step> interleave(Rng& r, std::vector<std::vector<vsim::Step>>& progs, int style);

vsim::Step mk(int client, const std::string& op, std::initializer_list<long> a = {}, const std::string& lit = "");

} // namespace gen
