// The command-line tool itself: cli/vata.cc and cli/parse_args.cc are compiled
// into the harness with main renamed (a compile-time seam, no /repo hook) and
// driven with real argument vectors and real files in a run-private directory.
// This is the `vata ...` observation point several properties name.
#include "world.hh"
#include "profiles.hh"

#include <unistd.h>
#include <fcntl.h>
#include <sys/stat.h>
#include <fstream>
#include <iostream>
#include <sstream>

#include <vata/explicit_tree_aut.hh>

int vata_cli_main(int argc, char* argv[]);      // cli/vata.cc, compiled with -Dmain=vata_cli_main
const char* VATA_VERSION = "verif"; const char* VATA_GIT_SHA = "verif"; const char* VATA_GIT_DESCRIBE = "verif";      // cli/version.cc.in

using namespace vsim;
using mdl::TA; using mdl::FA;

namespace {

const char* const REP[] = {"expl", "bdd-td", "bdd-bu", "expl_fa"};
const char* const CMD[] = {"load", "union", "isect", "incl", "witness", "cmpl", "red", "sim"};

std::string g_dir;

// The run-private directory lives in RAM (/dev/shm) when that is available: truncate-and-rewrite of small
// files on ext4 is flushed at close (auto_da_alloc) and serialises sixteen workers on the journal.
// The path is computed by cli_prepare() BEFORE the simulated heap is switched on and has a fixed length
// (zero-padded pid), so that neither the environment nor the pid can change the allocation sequence of a run.
const std::string& dir() { return g_dir; }

void write_file(const std::string& path, const std::string& text) { unlink(path.c_str()); std::ofstream o(path, std::ios::binary | std::ios::trunc); o << text; }
std::string read_file(const std::string& path) { std::ifstream in(path, std::ios::binary); return std::string((std::istreambuf_iterator<char>(in)), std::istreambuf_iterator<char>()); }

// runs the tool; stdout is captured into a file of the run-private directory
int run_vata(const std::vector<std::string>& args, std::string& out) {
	std::vector<std::string> a = args; a.insert(a.begin(), "vata");
	std::vector<char*> argv; for (auto& x : a) argv.push_back(const_cast<char*>(x.c_str())); argv.push_back(nullptr);
	std::string outpath = dir() + "/stdout.txt";
	fflush(stdout); std::cout.flush();
	unlink(outpath.c_str());
	int saved = dup(1); int fd = open(outpath.c_str(), O_WRONLY | O_CREAT | O_TRUNC, 0666);
	if (saved < 0 || fd < 0) harness_error("cannot redirect stdout for the CLI");
	dup2(fd, 1); close(fd);
	int rc = vata_cli_main(int(a.size()), argv.data());
	std::cout.flush(); fflush(stdout);
	dup2(saved, 1); close(saved);
	out = read_file(outpath);
	return rc;
}

// a description with arbitrary state names -> model with interned numbers
bool desc_to_ta_any(const mdl::Desc& d, TA& out) {
	std::map<std::string, long> id; auto get = [&](const std::string& n) { auto it = id.find(n); if (it != id.end()) return it->second; long v = long(id.size()); id[n] = v; return v; };
	out = TA(); for (auto& f : d.finals) out.finals.insert(get(f));
	for (auto& t : d.trans) { mdl::Rule r; r.sym = std::get<0>(t); r.parent = get(std::get<2>(t)); for (auto& c : std::get<1>(t)) r.ch.push_back(get(c)); out.rules.insert(r); }
	return true;
}
bool desc_to_fa_any(const mdl::Desc& d, FA& out) {
	std::map<std::string, long> id; auto get = [&](const std::string& n) { auto it = id.find(n); if (it != id.end()) return it->second; long v = long(id.size()); id[n] = v; return v; };
	out = FA(); for (auto& f : d.finals) out.finals.insert(get(f));
	for (auto& t : d.trans) {
		if (std::get<1>(t).empty()) { out.starts.insert(get(std::get<2>(t))); continue; }
		if (std::get<1>(t).size() != 1) return false;
		mdl::Edge e; e.src = get(std::get<1>(t)[0]); e.sym = std::get<0>(t); e.dst = get(std::get<2>(t)); out.edges.insert(e);
	}
	return true;
}

std::string prop_for(long rep, long cmd) {
	switch (cmd) {
		case 0: return rep == 0 ? "C03" : (rep == 3 ? "C10" : "C08");
		case 1: case 2: return rep == 0 ? "C02" : (rep == 3 ? "C10" : "C08");
		case 3: return rep == 0 ? "C01" : (rep == 3 ? "C09" : "C07");
		case 4: return rep == 3 ? "C10" : "C15";
		case 5: return "C06";
		case 7: return "C04";
		default: return "C05";
	}
}

struct InclSel { const char* name; const char* opts; bool implemented[4]; };    // per representation expl, bdd-td, bdd-bu, expl_fa
const InclSel ISEL[] = {
	{"up-nosim", "dir=up,sim=no", {true, false, true, false}},
	{"up-sim", "dir=up,sim=yes", {true, false, false, false}},
	{"down-nonrec-nosim", "dir=down,rec=no,sim=no", {true, false, false, false}},
	{"down-nonrec-sim", "dir=down,rec=no,sim=yes", {true, false, false, false}},
	{"down-rec-nosim", "dir=down,rec=yes,sim=no", {true, true, false, false}},
	{"down-rec-sim", "dir=down,rec=yes,sim=yes", {true, false, true, false}},
	{"down-rec-opt-nosim", "dir=down,rec=yes,optC=yes,sim=no", {true, true, false, false}},
	{"down-rec-opt-sim", "dir=down,rec=yes,optC=yes,sim=yes", {true, false, false, false}},
	// spellings that rely on the tool's defaults (dir=up, rec=no, optC=no, sim=no)
	{"up-sim:defaults", "sim=yes", {true, false, false, false}},
	{"up-sim:defaults2", "rec=no,sim=yes,timeS=no", {true, false, false, false}},
	{"up-nosim:defaults", "sim=no", {true, false, true, false}},
	{"down-nonrec-sim:defaults", "dir=down,sim=yes", {true, false, false, false}},
	{"down-nonrec-nosim:defaults", "dir=down", {true, false, false, false}},
	{"down-rec-nosim:defaults", "dir=down,rec=yes", {true, true, false, false}},
	{"down-rec-sim:reordered", "sim=yes,rec=yes,dir=down", {true, false, true, false}},
	{"down-rec-opt-nosim:reordered", "optC=yes,rec=yes,dir=down", {true, true, false, false}},
	{"fa-antichains", "alg=antichains", {false, false, false, true}},
	{"fa-congr-depth", "alg=congr,order=depth", {false, false, false, true}},
	{"fa-congr-breadth", "alg=congr,order=breadth", {false, false, false, true}},
};
const int N_ISEL = 19, N_TREE_SEL = 16;

void split2(const std::string& lit, std::string& a, std::string& b) { size_t q = lit.find(" || "); a = lit.substr(0, q); b = q == std::string::npos ? "" : lit.substr(q + 4); }

void op_cli(const Step& s) {
	long rep = ((s.arg(0) % 4) + 4) % 4, cmd = ((s.arg(1) % 8) + 8) % 8, prune = ((s.arg(2) % 3) + 3) % 3, sel = ((s.arg(3) % N_ISEL) + N_ISEL) % N_ISEL;
	if ((cmd == 5 || cmd == 6 || cmd == 7) && rep != 0) throw Skip();     // complement / reduction / simulation: explicit tree automata only
	if (cmd == 4 && (rep == 1 || rep == 2)) throw Skip();     // witness: not implemented for the BDD encodings
	if (cmd == 3) {
		// selections that exist for the representation (and a few that do not: they must end in an error, not in a verdict)
		if (rep == 3 && sel < N_TREE_SEL) sel = N_TREE_SEL + sel % 3;
		if (rep != 3 && sel >= N_TREE_SEL) sel = sel % N_TREE_SEL;
		// a simulation request that the encoding cannot serve goes through ComputeSimulation first and must be reported as an error
	}
	const std::string P = prop_for(rep, cmd);
	if (!armed(P.c_str()) && !armed("C20")) throw Skip();
	std::string la, lb; split2(s.lit, la, lb);
	const bool fa = rep == 3;
	TA A, B; FA FAa, FAb;
	std::string ta, tb;
	if (fa) { FAa = mdl::fa_from_lit(la); FAb = mdl::fa_from_lit(lb); ta = mdl::to_timbuk(FAa, "q"); tb = mdl::to_timbuk(FAb, "q"); }
	else { A = mdl::from_lit(la); B = mdl::from_lit(lb); ta = mdl::to_timbuk(A, "q", nullptr, (s.arg(4) & 1) != 0); tb = mdl::to_timbuk(B, "q", nullptr, (s.arg(4) & 2) != 0); }
	// a text file need not end with a newline
	if (s.arg(4) & 4) while (!ta.empty() && ta.back() == '\n') ta.pop_back();
	if (s.arg(4) & 8) while (!tb.empty() && tb.back() == '\n') tb.pop_back();
	std::string fa_path = dir() + "/a.timbuk", fb_path = dir() + "/b.timbuk";
	write_file(fa_path, ta); write_file(fb_path, tb);
	std::vector<std::string> args = {"-r", REP[rep]};
	const bool sim_up = cmd == 7 && (sel & 1);
	if (cmd == 7) {
		// the tool does not prune before `sim` (it ignores -p / -s there), and the upward simulation is defined for automata
		// without useless states (C04): the client hands over a trimmed automaton, as et_sim does through the API
		prune = 0;
		if (sim_up) { A = mdl::trim_useless(A); if (A.states().empty()) throw Skip(); ta = mdl::to_timbuk(A, "q", nullptr, (s.arg(4) & 1) != 0); if (s.arg(4) & 4) while (!ta.empty() && ta.back() == '\n') ta.pop_back(); write_file(fa_path, ta); }
	}
	if (prune == 1 && cmd != 3 && cmd != 4) args.push_back("-p"); else if (prune == 2 && cmd != 3 && cmd != 4) args.push_back("-s"); else prune = 0;
	if (cmd == 3) { args.push_back("-o"); args.push_back(ISEL[sel].opts); }
	if (cmd == 7) { args.push_back("-o"); args.push_back(sim_up ? "dir=up" : "dir=down"); }
	args.push_back(CMD[cmd]); args.push_back(fa_path);
	if (cmd >= 1 && cmd <= 3) args.push_back(fb_path);
	const std::string site = std::string("cli:") + REP[rep] + ":" + CMD[cmd] + (prune == 1 ? ":-p" : prune == 2 ? ":-s" : "") + (cmd == 3 ? std::string(":") + ISEL[sel].name : std::string()) + (cmd == 7 ? (sim_up ? ":up" : ":down") : "");
	std::string out;
	api_begin(); api_site(site, (cmd == 3 || cmd == 5) ? BUDGET_INCONCLUSIVE : BUDGET_HANG, (cmd == 3 || cmd == 5) ? 3000000 : 0);
	int rc = run_vata(args, out);
	api_end(); observe(out); count(c_oracle_evals);
	if (!armed(P.c_str())) return;
	// ------------------------------------------------------------ oracles
	if (cmd == 3) {
		bool impl = ISEL[sel].implemented[rep];
		std::string verdict = out; while (!verdict.empty() && (verdict.back() == '\n' || verdict.back() == ' ' || verdict.back() == '\r')) verdict.pop_back();
		if (!impl) {
			// a selection the encoding does not implement must not produce a WRONG verdict; refusing (or answering correctly) is fine
			if (rc == 0 && (verdict == "1" || verdict == "0")) { int w = fa ? mdl::incl(FAa, FAb) : mdl::incl(A, B); if (w >= 0 && verdict != (w ? "1" : "0")) violation(P + ".unimplemented-selection", site, "the tool printed the wrong verdict " + verdict + " for a selection the encoding does not implement\n  smaller: " + la + "\n  bigger : " + lb); }
			return;
		}
		if (rc != 0) { violation(P + ".cli-failed", site, "the tool failed on a well-formed request (exit " + std::to_string(rc) + ")"); return; }
		int want = fa ? mdl::incl(FAa, FAb) : mdl::incl(A, B); if (want < 0) { count(c_model_too_big); return; }
		(want ? count(c_verdict_true) : count(c_verdict_false));
		if (verdict != (want ? "1" : "0")) violation(P + ".verdict", site, "`vata " + std::string(REP[rep]) + " incl` printed '" + escape(out.substr(0, 40)) + "' but the reference says " + (want ? "included" : "not included") + "\n  smaller: " + la + "\n  bigger : " + lb);
		note_case(mix64(hash_str(s.lit), uint64_t(sel) * 7 + uint64_t(rep)));
		return;
	}
	if (rc != 0) { violation(P + ".cli-failed", site, "the tool failed on a well-formed request (exit " + std::to_string(rc) + ")\n  a: " + la + "\n  b: " + lb); return; }
	if (cmd == 7) {
		// `vata sim`: first line "index: state name, ...", second line "{(i, j), ...}" over the indices
		const TA& T = A;
		size_t nl = out.find('\n'); if (nl == std::string::npos) { violation(P + ".cli-output-well-formed", site, "no index line: " + escape(out.substr(0, 200))); return; }
		std::map<long, long> idx2state; std::string l1 = out.substr(0, nl), l2 = out.substr(nl + 1);
		{ size_t p = 0; while (p < l1.size()) { size_t c = l1.find(": ", p); if (c == std::string::npos) break; size_t e = l1.find(", ", c); if (e == std::string::npos) { e = l1.size(); while (e > c + 2 && (l1[e - 1] == ' ' || l1[e - 1] == ',')) --e; if (e <= c + 2) break; } long i = atol(l1.substr(p, c - p).c_str()); std::string nm = l1.substr(c + 2, e - c - 2); if (nm.size() < 2 || nm[0] != 'q') { violation(P + ".cli-output-well-formed", site, "unexpected state name '" + escape(nm) + "'"); return; } idx2state[i] = atol(nm.c_str() + 1); p = e + 2; } }
		std::set<long> listed; for (auto& kv : idx2state) listed.insert(kv.second);
		if (listed != T.states()) { violation(P + ".cli-sim-states", site, "`vata sim` lists other states than the automaton has\n  a: " + la + "\n  output: " + escape(out.substr(0, 300))); return; }
		mdl::Rel got; bool bad = false;
		{ size_t p = 0; while ((p = l2.find('(', p)) != std::string::npos) { size_t c = l2.find(", ", p), e = l2.find(')', p); if (c == std::string::npos || e == std::string::npos || c > e) { bad = true; break; } long i = atol(l2.substr(p + 1, c - p - 1).c_str()), j = atol(l2.substr(c + 2, e - c - 2).c_str()); if (!idx2state.count(i) || !idx2state.count(j)) { bad = true; break; } got.insert(std::make_pair(idx2state[i], idx2state[j])); p = e + 1; } }
		if (bad) { violation(P + ".cli-output-well-formed", site, "the relation line cannot be read: " + escape(l2.substr(0, 200))); return; }
		mdl::Rel want = sim_up ? mdl::up_sim(T) : mdl::down_sim(T);
		count(c_sim_pairs_checked, listed.size() * listed.size());
		if (got != want) {
			std::string diff; int n = 0;
			for (auto& pr : got) if (!want.count(pr) && n++ < 4) diff += " extra(" + std::to_string(pr.first) + "," + std::to_string(pr.second) + ")";
			for (auto& pr : want) if (!got.count(pr) && n++ < 8) diff += " missing(" + std::to_string(pr.first) + "," + std::to_string(pr.second) + ")";
			violation(sim_up ? "C04.up-sim" : "C04.down-sim", site, "the relation printed by `vata sim` is not the greatest " + std::string(sim_up ? "upward" : "downward") + " simulation:" + diff + "\n  a: " + la + "\n  automaton it was computed on: " + mdl::to_lit(T));
		}
		note_case(mix64(hash_str(la), 700 + uint64_t(sim_up) * 2 + uint64_t(prune)));
		return;
	}
	mdl::Desc d; std::string err;
	if (!mdl::parse_timbuk_ref(out, d, &err)) { violation(P + ".cli-output-well-formed", site, "the printed automaton is not well-formed Timbuk: " + err + "\n" + escape(out.substr(0, 300))); return; }
	int e = -1; std::string what;
	if (fa) {
		FA got; if (!desc_to_fa_any(d, got)) { violation(P + ".cli-output-well-formed", site, "the printed automaton is not a word automaton"); return; }
		FA want; bool sub = false;
		switch (cmd) { case 0: want = FAa; break; case 1: want = mdl::unite_tagged(FAa, FAb); break; case 2: want = mdl::isect(FAa, FAb); break; default: want = FAa; sub = true; break; }
		if (sub) { e = mdl::incl(got, want); if (e == 1 && !mdl::is_empty(want) && mdl::is_empty(got)) e = 0; what = "witness"; }
		else { e = mdl::equiv(got, want); what = CMD[cmd]; }
		if (e == 0) violation(P + ".cli-language", site, "the automaton printed by `vata " + std::string(REP[rep]) + " " + what + "` has the wrong language\n  a: " + la + "\n  b: " + lb + "\n  printed: " + mdl::to_lit(got));
	} else {
		TA got; desc_to_ta_any(d, got);
		TA want; bool sub = false;
		switch (cmd) { case 0: want = A; break; case 1: want = mdl::unite_tagged(A, B); break; case 2: want = mdl::isect(A, B); break; case 4: want = A; sub = true; break; case 6: want = A; break; default: break; }
		if (cmd == 5) {
			// complement over the process-wide default alphabet as it is at the call (the tool's automata use it)
			mdl::Alphabet sigma = A.symbols(); std::string why;
			{ VATA::ExplicitTreeAut probe; const VATA::ExplicitTreeAut::OnTheFlyAlphabet* otf = dynamic_cast<const VATA::ExplicitTreeAut::OnTheFlyAlphabet*>(probe.GetAlphabet().get());
			  if (otf) for (auto& kv : otf->GetSymbolDict()) sigma.insert(mdl::Sym(kv.first.symbolStr, int(kv.first.rank))); }
			e = mdl::is_complement(A, got, sigma, &why); what = "cmpl: " + why;
		}
		else if (sub) { e = mdl::incl(got, want); if (e == 1 && !mdl::is_empty(want) && mdl::is_empty(got)) e = 0; what = "witness"; }
		else { e = mdl::equiv(got, want); what = CMD[cmd]; }
		if (e == 0) violation(P + ".cli-language", site, "the automaton printed by `vata " + std::string(REP[rep]) + " " + what + "` has the wrong language\n  a: " + la + "\n  b: " + lb + "\n  printed: " + mdl::to_lit(got));
		if (e == 1 && cmd == 0 && prune == 2) {
			std::set<long> prod = mdl::productive(got), reach = mdl::reachable(got);
			for (long q : got.states()) if (!prod.count(q) || !reach.count(q)) { violation(P + ".cli-useless-postcondition", site, "`vata -s load` printed an automaton with a useless state\n  a: " + la + "\n  printed: " + mdl::to_lit(got)); break; }
		}
		if (e == 1 && cmd == 0 && prune == 1 && rep == 0) {
			std::set<long> reach = mdl::reachable(got);
			for (long q : got.states()) if (!reach.count(q)) { violation(P + ".cli-unreach-postcondition", site, "`vata -p load` printed an automaton with an unreachable state\n  a: " + la + "\n  printed: " + mdl::to_lit(got)); break; }
		}
	}
	if (e < 0) count(c_model_too_big); else note_case(mix64(hash_str(s.lit), uint64_t(cmd) * 31 + uint64_t(rep) * 5 + uint64_t(prune)));
}

} // namespace

namespace vsim {

// a CLI step for the given representation / command on a generated pair
Step cli_step(Rng& r, int client, long rep, long cmd, const std::string& lit_a, const std::string& lit_b) {
	return gen::mk(client, "cli", {rep, cmd, long(r.below(3)), long(r.below(N_ISEL)), long(r.below(16))}, lit_a + " || " + lit_b);
}

void register_cli_ops() { register_op("cli", op_cli); }
const std::string& cli_dir() { return g_dir; }

void cli_prepare() {
	const char* d = getenv("VSIM_TMP"); std::string base = d ? d : "build/tmp";
	if (access("/dev/shm", W_OK | X_OK) == 0) base = "/dev/shm";
	char pid[16]; snprintf(pid, sizeof pid, "%010d", int(getppid()));
	g_dir = base + "/vsim-cli-" + pid;
	mkdir(base.c_str(), 0777); mkdir(g_dir.c_str(), 0777);
}

} // namespace vsim
