// dispatch for the profiles defined next to their op modules
#include "profiles.hh"
namespace vsim {
Plan plan_C09(Rng& r, const std::string& tier);
Plan plan_C10(Rng& r, const std::string& tier);
Plan plan_C07(Rng& r, const std::string& tier);
Plan plan_C08(Rng& r, const std::string& tier);
bool generate_plan_ext(const std::string& profile, const std::string& tier, Rng& r, Plan& p) {
	if (profile == "C09") { p = plan_C09(r, tier); return true; }
	if (profile == "C10") { p = plan_C10(r, tier); return true; }
	if (profile == "C07") { p = plan_C07(r, tier); return true; }
	if (profile == "C08") { p = plan_C08(r, tier); return true; }
	return false;
}
}
