// dispatch for the profiles defined next to their op modules
#include "profiles.hh"
namespace vsim {
Plan plan_C09(Rng& r, const std::string& tier);
Plan plan_C10(Rng& r, const std::string& tier);
Plan plan_C07(Rng& r, const std::string& tier);
Plan plan_C08(Rng& r, const std::string& tier);
Plan plan_C17(Rng& r, const std::string& tier);
Plan plan_C18(Rng& r, const std::string& tier);
Plan plan_C13(Rng& r, const std::string& tier);
Plan plan_C19(Rng& r, const std::string& tier);
bool generate_plan_ext(const std::string& profile, const std::string& tier, Rng& r, Plan& p) {
	if (profile == "C09") { p = plan_C09(r, tier); return true; }
	if (profile == "C10") { p = plan_C10(r, tier); return true; }
	if (profile == "C07") { p = plan_C07(r, tier); return true; }
	if (profile == "C08") { p = plan_C08(r, tier); return true; }
	if (profile == "C17") { p = plan_C17(r, tier); return true; }
	if (profile == "C18") { p = plan_C18(r, tier); return true; }
	if (profile == "C13") { p = plan_C13(r, tier); return true; }
	if (profile == "C19") { p = plan_C19(r, tier); return true; }
	if (profile == "C20") {
		// the union of all other workloads, judged only by the memory / UB monitors (sanitizers on the
		// poisoned arena, noise differential, crash and hang detection)
		static const char* const all[] = {"C01", "C02", "C03", "C04", "C05", "C06", "C07", "C08", "C09", "C10", "C11", "C12", "C13", "C14", "C15", "C17", "C18", "C19"};
		std::string pick = all[r.below(sizeof all / sizeof all[0])];
		Rng r2(r.next());
		p = generate_plan(pick, tier, r2.next());
		return true;
	}
	return false;
}
}
