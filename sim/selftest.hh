#pragma once
#include <string>
#include <cstdint>
int selftest_main(const std::string& which, uint64_t seed, int workers);
