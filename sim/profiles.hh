#pragma once
#include "world.hh"
#include "gen.hh"
namespace vsim {
// per-client program generator that keeps track of the live explicit-tree handles
struct PG {
	Rng& r; int client; std::vector<Step> out; std::vector<int> alpha;   // alphabet id per live handle
	PG(Rng& rr, int c);
	int push(const Step& s, int creates_alpha = -1);
	int load(const mdl::TA& a, int al);
	int any();
	void removed(int h);
	int al(int h);
	void value_ops(int n);
	void mutate_ops(int n, const gen::Pool& pool);
	int derived(int a, const mdl::TA& A, const gen::Pool& pool);   // a handle that is the RESULT of an operation on a (and a second, freshly loaded automaton)
};
std::vector<Step> foreign_program(Rng& r, int client, const gen::Pool& pool, int len);
std::vector<Step> fa_history_program(Rng& r, int c, int ncl, int len);
std::vector<Step> bdd_history_program(Rng& r, int c, const gen::Pool& pool, int len);
std::vector<Step> et_history_program(Rng& r, int c, const gen::Pool& pool, int len);
// profiles defined in other files (FA, BDD, MTBDD, text, C19, C20)
bool generate_plan_ext(const std::string& profile, const std::string& tier, Rng& r, Plan& p);
}
