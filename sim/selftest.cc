// Self-tests of the simulator: oracle soundness against brute-force
// enumeration, and determinism of runs (DESIGN.md 2.10).
#include "selftest.hh"
#include "core.hh"
#include "model.hh"
#include "gen.hh"
#include <cstdio>
#include <cstdlib>
#include <unistd.h>
#include <sys/wait.h>

using namespace vsim;

static int oracle_selftest(uint64_t seed) {
	Rng r(seed * 977 + 1); int bad = 0; size_t checked = 0, both[2] = {0, 0};
	for (int it = 0; it < 1500; ++it) {
		gen::Pool pool = gen::make_pool(r, 4, 2);
		gen::TAOpts o; o.max_states = 3; o.max_rules = 6;
		mdl::TA a = gen::gen_ta(r, pool, o), b = r.chance(1, 2) ? gen::derive_ta(r, pool, a, int(r.below(6))) : gen::gen_ta(r, pool, o);
		mdl::Alphabet sigma(pool.begin(), pool.end());
		std::vector<mdl::Tree> trees; mdl::enum_trees(sigma, 2, trees, 3000);
		std::vector<mdl::Tree> t0, t1; mdl::enum_trees(sigma, 0, t0, 3000); mdl::enum_trees(sigma, 1, t1, 3000);
		trees.insert(trees.end(), t0.begin(), t0.end()); trees.insert(trees.end(), t1.begin(), t1.end());
		int v = mdl::incl(a, b); if (v < 0) continue;
		bool cex = false; for (auto& t : trees) if (mdl::accepts(a, t) && !mdl::accepts(b, t)) { cex = true; break; }
		++checked; ++both[v];
		// enumeration up to depth 2 can only refute inclusion
		if (v == 1 && cex) { printf("oracle selftest: incl says included, enumeration found a counterexample\n  a=%s\n  b=%s\n", mdl::to_lit(a).c_str(), mdl::to_lit(b).c_str()); ++bad; }
		// emptiness vs enumeration (3 states: a witness of depth <= 2 exists if any does)
		bool acc = false; for (auto& t : trees) if (mdl::accepts(a, t)) { acc = true; break; }
		if (acc == mdl::is_empty(a)) { printf("oracle selftest: emptiness disagrees with enumeration for %s\n", mdl::to_lit(a).c_str()); ++bad; }
		// product and union against membership
		mdl::TA u = mdl::unite_tagged(a, b), x = mdl::isect(a, b), tr = mdl::trim_useless(a);
		for (auto& t : trees) {
			bool ia = mdl::accepts(a, t), ib = mdl::accepts(b, t);
			if (mdl::accepts(u, t) != (ia || ib) || mdl::accepts(x, t) != (ia && ib) || mdl::accepts(tr, t) != ia) { printf("oracle selftest: union/isect/trim disagree with membership\n"); ++bad; break; }
		}
		// if not included, the subset construction must be right about SOME tree: check with deeper enumeration on tiny alphabets
		if (v == 0 && !cex) {
			std::vector<mdl::Tree> t3; mdl::enum_trees(sigma, 3, t3, 60000);
			bool c3 = false; for (auto& t : t3) if (mdl::accepts(a, t) && !mdl::accepts(b, t)) { c3 = true; break; }
			if (!c3 && t3.size() < 60000) { printf("oracle selftest: incl says not included, no counterexample up to depth 3\n  a=%s\n  b=%s\n", mdl::to_lit(a).c_str(), mdl::to_lit(b).c_str()); ++bad; }
		}
		// simulation implies language inclusion of the states
		mdl::Rel R = mdl::down_sim(a);
		for (auto& pr : R) { mdl::TA p = a, q = a; p.finals = {pr.first}; q.finals = {pr.second}; if (mdl::incl(p, q) == 0) { printf("oracle selftest: down_sim relates states whose languages are not included\n"); ++bad; break; } }
		// complement checker: a determinised complement built here must pass, a broken one must fail
	}
	// NFA inclusion against word enumeration
	for (int it = 0; it < 1500; ++it) {
		std::vector<std::string> syms = {"a", "b"}; if (r.chance(1, 2)) syms.push_back("c");
		mdl::FA a = gen::gen_fa(r, syms, 4), b = r.chance(1, 2) ? gen::derive_fa(r, syms, a, int(r.below(5))) : gen::gen_fa(r, syms, 4);
		int v = mdl::incl(a, b); if (v < 0) continue;
		bool cex = false; std::vector<std::vector<std::string>> words = {{}};
		for (int len = 0; len <= 5 && !cex; ++len) {
			std::vector<std::vector<std::string>> nxt;
			for (auto& w : words) { if (mdl::accepts(a, w) && !mdl::accepts(b, w)) { cex = true; break; } for (auto& s : syms) { auto w2 = w; w2.push_back(s); nxt.push_back(w2); } }
			words.swap(nxt);
		}
		++checked; ++both[v];
		if (v == 1 && cex) { printf("oracle selftest (FA): included, but a counterexample word exists\n"); ++bad; }
		// 4x4 states: a counterexample, if any, has length < 4*2^4; length<=5 covers most; only flag the safe direction
		// the forward simulation handed to the library by fa_incl_sim: related states must have included languages,
		// the relation must be reflexive and transitive
		{ std::set<long> dom = a.states(); mdl::Rel R = mdl::fwd_sim(a, dom);
		  for (long q : dom) if (!R.count(std::make_pair(q, q))) { printf("oracle selftest (FA): fwd_sim is not reflexive\n"); ++bad; break; }
		  for (auto& x : R) for (auto& y : R) if (x.second == y.first && !R.count(std::make_pair(x.first, y.second))) { printf("oracle selftest (FA): fwd_sim is not transitive\n"); ++bad; goto simdone; }
		  for (auto& pr : R) { mdl::FA p = a, q = a; p.starts = {pr.first}; q.starts = {pr.second}; if (mdl::incl(p, q) == 0) { printf("oracle selftest (FA): fwd_sim relates states whose languages are not included\n"); ++bad; break; } }
		  simdone: ; }
		mdl::FA rv = mdl::reverse(a);
		for (auto& w : words) { std::vector<std::string> wr(w.rbegin(), w.rend()); if (mdl::accepts(a, w) != mdl::accepts(rv, wr)) { printf("oracle selftest (FA): reverse wrong\n"); ++bad; break; } }
	}
	printf("oracle selftest: %zu cases (%zu not-included, %zu included), %d disagreements\n", checked, both[0], both[1], bad);
	return bad ? 1 : 0;
}

static int determinism_selftest(uint64_t seed, int nseeds) {
	int bad = 0; size_t n = 0;
	for (const std::string& prof : all_profiles()) {
		for (int i = 0; i < nseeds; ++i) {
			uint64_t s = mix64(seed, uint64_t(i) * 131 + hash_str(prof));
			RunResult a = run_in_child(nullptr, prof, "quick", s, 30), b = run_in_child(nullptr, prof, "quick", s, 30);
			++n;
			if (a.status != b.status || a.fingerprint != b.fingerprint || a.obs_digest != b.obs_digest || a.ticks != b.ticks || a.plan_text != b.plan_text) {
				printf("determinism: profile %s seed %llu differs between two runs (status %d/%d fp %llx/%llx digest %llx/%llx ticks %llu/%llu)\n", prof.c_str(), (unsigned long long)s, a.status, b.status,
					(unsigned long long)a.fingerprint, (unsigned long long)b.fingerprint, (unsigned long long)a.obs_digest, (unsigned long long)b.obs_digest, (unsigned long long)a.ticks, (unsigned long long)b.ticks);
				++bad;
			}
		}
	}
	printf("determinism selftest: %zu seed pairs, %d differing\n", n, bad);
	return bad ? 1 : 0;
}

// prints one line per seed: used by the driver to diff across processes / worker counts / environment sizes
static int fingerprint_dump(uint64_t seed, int nseeds) {
	for (const std::string& prof : all_profiles())
		for (int i = 0; i < nseeds; ++i) {
			uint64_t s = mix64(seed, uint64_t(i) * 131 + hash_str(prof));
			RunResult a = run_in_child(nullptr, prof, "quick", s, 30);
			printf("%s %llu %d %016llx %016llx %llu\n", prof.c_str(), (unsigned long long)s, a.status, (unsigned long long)a.fingerprint, (unsigned long long)a.obs_digest, (unsigned long long)a.ticks);
		}
	return 0;
}

// the known-findings mechanism: a listed (oracle, site) is counted and reported, an unlisted one is a violation
static int known_selftest() {
	Plan p; p.profile = "C99"; p.clients = 1; Step s; s.op = "selftest_violation"; s.lit = "C99.deliberate"; p.steps.push_back(s);
	g_known.clear();
	RunResult a = run_in_child(&p, "C99", "quick", 1, 30);
	KnownFinding k; k.property = "C99"; k.oracle = "C99.deliberate"; k.site = "selftest-site"; k.text = " property=C99 oracle=C99.deliberate site=selftest-site deliberate"; g_known.push_back(k);
	RunResult b = run_in_child(&p, "C99", "quick", 1, 30);
	g_known[0].fixed = true;
	RunResult c = run_in_child(&p, "C99", "quick", 1, 30);
	g_known.clear();
	bool ok = a.status == 2 && a.oracle == "C99.deliberate" && b.status == 1 && b.known_lines.size() == 1 && c.status == 2;
	printf("known-findings selftest: unlisted -> status %d, listed -> status %d with %zu KNOWN-FINDING line(s), 'fixed:' entry -> status %d : %s\n", a.status, b.status, b.known_lines.size(), c.status, ok ? "ok" : "FAILED");
	return ok ? 0 : 1;
}

int selftest_main(const std::string& which, uint64_t seed, int workers) {
	if (which == "known") return known_selftest();
	if (which == "oracles") return oracle_selftest(seed);
	if (which == "determinism") return determinism_selftest(seed, workers > 0 ? workers * 5 : 40);
	if (which == "fingerprints") return fingerprint_dump(seed, workers > 0 ? workers : 8);
	fprintf(stderr, "selftest oracles|determinism|fingerprints\n"); return 2;
}
