#include "model.hh"
#include <sstream>
#include <algorithm>
#include <functional>
#include <cstdlib>
#include <cerrno>

namespace mdl {

static inline uint64_t hmix(uint64_t h, uint64_t v) {
	h ^= v + 0x9e3779b97f4a7c15ull + (h << 6) + (h >> 2); return h * 0x100000001b3ull;
}
static inline uint64_t hstr(const std::string& s) { uint64_t h = 0xcbf29ce484222325ull; for (unsigned char c : s) { h ^= c; h *= 0x100000001b3ull; } return h; }

// =================================================================== TA
std::set<long> TA::states() const {
	std::set<long> s(finals);
	for (const Rule& r : rules) { s.insert(r.parent); for (long c : r.ch) s.insert(c); }
	return s;
}
std::set<long> TA::rule_states() const {
	std::set<long> s;
	for (const Rule& r : rules) { s.insert(r.parent); for (long c : r.ch) s.insert(c); }
	return s;
}
std::set<Sym> TA::symbols() const {
	std::set<Sym> s; for (const Rule& r : rules) s.insert(Sym(r.sym, int(r.ch.size()))); return s;
}
uint64_t TA::hash() const {
	uint64_t h = 17;
	for (long f : finals) h = hmix(h, uint64_t(f) + 1);
	h = hmix(h, 0xabcdef);
	for (const Rule& r : rules) { h = hmix(h, uint64_t(r.parent)); h = hmix(h, hstr(r.sym)); for (long c : r.ch) h = hmix(h, uint64_t(c) + 7); h = hmix(h, 99); }
	return h;
}

std::string to_lit(const TA& a) {
	std::ostringstream o; o << "F";
	for (long f : a.finals) o << " " << f;
	for (const Rule& r : a.rules) {
		o << " ; " << r.sym << "(";
		for (size_t i = 0; i < r.ch.size(); ++i) o << (i ? "," : "") << r.ch[i];
		o << ")>" << r.parent;
	}
	return o.str();
}

TA from_lit(const std::string& s) {
	TA a; std::vector<std::string> parts; size_t p = 0;
	while (true) { size_t q = s.find(';', p); parts.push_back(s.substr(p, q == std::string::npos ? q : q - p)); if (q == std::string::npos) break; p = q + 1; }
	for (size_t i = 0; i < parts.size(); ++i) {
		std::string t = parts[i];
		t.erase(0, t.find_first_not_of(" ")); if (!t.empty()) t.erase(t.find_last_not_of(" ") + 1);
		if (t.empty()) continue;
		if (i == 0 && t[0] == 'F' && (t.size() == 1 || t[1] == ' ')) {
			std::istringstream is(t.substr(1)); long v; while (is >> v) a.finals.insert(v);
			continue;
		}
		size_t lp = t.find('('), rp = t.find(')'), gt = t.find('>');
		if (lp == std::string::npos || rp == std::string::npos || gt == std::string::npos) continue;
		Rule r; r.sym = t.substr(0, lp); r.parent = atol(t.c_str() + gt + 1);
		std::string in = t.substr(lp + 1, rp - lp - 1); std::replace(in.begin(), in.end(), ',', ' ');
		std::istringstream is(in); long v; while (is >> v) r.ch.push_back(v);
		a.rules.insert(r);
	}
	return a;
}

std::string to_timbuk(const TA& a, const std::string& prefix, const Alphabet* extra, bool parens) {
	std::ostringstream o;
	Alphabet syms = a.symbols(); if (extra) syms.insert(extra->begin(), extra->end());
	o << "Ops";
	for (const Sym& s : syms) o << " " << s.first << ":" << s.second;
	o << "\nAutomaton anonymous\nStates";
	for (long q : a.states()) o << " " << prefix << q;
	o << "\nFinal States";
	for (long q : a.finals) o << " " << prefix << q;
	o << "\nTransitions\n";
	for (const Rule& r : a.rules) {
		o << r.sym;
		if (!r.ch.empty() || parens) {
			o << "(";
			for (size_t i = 0; i < r.ch.size(); ++i) o << (i ? "," : "") << prefix << r.ch[i];
			o << ")";
		}
		o << " -> " << prefix << r.parent << "\n";
	}
	return o.str();
}

std::string diff(const TA& e, const TA& g) {
	std::ostringstream o; int n = 0;
	for (const Rule& r : e.rules) if (!g.rules.count(r) && n++ < 6) { TA t; t.rules.insert(r); o << " missing[" << to_lit(t).substr(4) << "]"; }
	for (const Rule& r : g.rules) if (!e.rules.count(r) && n++ < 6) { TA t; t.rules.insert(r); o << " extra[" << to_lit(t).substr(4) << "]"; }
	for (long f : e.finals) if (!g.finals.count(f) && n++ < 10) o << " missing-final " << f;
	for (long f : g.finals) if (!e.finals.count(f) && n++ < 10) o << " extra-final " << f;
	if (n > 10) o << " ...(" << n << " differences)";
	return o.str();
}

TA rename(const TA& a, const std::map<long, long>& m) {
	auto f = [&](long q) { auto it = m.find(q); return it == m.end() ? q : it->second; };
	TA r; for (long q : a.finals) r.finals.insert(f(q));
	for (const Rule& x : a.rules) { Rule y; y.sym = x.sym; y.parent = f(x.parent); for (long c : x.ch) y.ch.push_back(f(c)); r.rules.insert(y); }
	return r;
}
TA rename_syms(const TA& a, const std::map<std::string, std::string>& m) {
	TA r; r.finals = a.finals;
	for (const Rule& x : a.rules) { Rule y = x; auto it = m.find(x.sym); if (it != m.end()) y.sym = it->second; r.rules.insert(y); }
	return r;
}
TA unite(const TA& a, const TA& b) {
	TA r = a; r.rules.insert(b.rules.begin(), b.rules.end()); r.finals.insert(b.finals.begin(), b.finals.end()); return r;
}
TA unite_tagged(const TA& a, const TA& b, std::map<long, long>* ma, std::map<long, long>* mb) {
	std::map<long, long> m1, m2; long n = 0;
	for (long q : a.states()) m1[q] = n++;
	for (long q : b.states()) m2[q] = n++;
	if (ma) *ma = m1; if (mb) *mb = m2;
	return unite(rename(a, m1), rename(b, m2));
}
TA isect(const TA& a, const TA& b, std::map<std::pair<long, long>, long>* pm) {
	std::map<std::pair<long, long>, long> m; long n = 0;
	for (long p : a.states()) for (long q : b.states()) m[std::make_pair(p, q)] = n++;
	TA r;
	for (const Rule& x : a.rules) for (const Rule& y : b.rules) {
		if (x.sym != y.sym || x.ch.size() != y.ch.size()) continue;
		Rule z; z.sym = x.sym; z.parent = m[std::make_pair(x.parent, y.parent)];
		for (size_t i = 0; i < x.ch.size(); ++i) z.ch.push_back(m[std::make_pair(x.ch[i], y.ch[i])]);
		r.rules.insert(z);
	}
	for (long p : a.finals) for (long q : b.finals) r.finals.insert(m[std::make_pair(p, q)]);
	if (pm) *pm = m;
	return r;
}

std::set<long> productive(const TA& a) {
	std::set<long> p; bool ch = true;
	while (ch) {
		ch = false;
		for (const Rule& r : a.rules) {
			if (p.count(r.parent)) continue;
			bool ok = true; for (long c : r.ch) if (!p.count(c)) { ok = false; break; }
			if (ok) { p.insert(r.parent); ch = true; }
		}
	}
	return p;
}
std::set<long> reachable(const TA& a) {
	std::set<long> s(a.finals); bool ch = true;
	while (ch) {
		ch = false;
		for (const Rule& r : a.rules) if (s.count(r.parent)) for (long c : r.ch) if (s.insert(c).second) ch = true;
	}
	return s;
}
TA trim_unreachable(const TA& a) {
	std::set<long> s = reachable(a); TA r; r.finals = a.finals;
	for (const Rule& x : a.rules) if (s.count(x.parent)) r.rules.insert(x);
	return r;
}
TA trim_useless(const TA& a) {
	std::set<long> p = productive(a); TA t;
	for (long f : a.finals) if (p.count(f)) t.finals.insert(f);
	for (const Rule& x : a.rules) {
		bool ok = p.count(x.parent) > 0; for (long c : x.ch) if (!p.count(c)) ok = false;
		if (ok) t.rules.insert(x);
	}
	return trim_unreachable(t);
}
bool is_empty(const TA& a) {
	std::set<long> p = productive(a); for (long f : a.finals) if (p.count(f)) return false; return true;
}

// Exact inclusion.  Reachable pairs (p, S): some tree t has a run of A ending
// in p, and S is exactly the set of states in which B can end on t.
int incl(const TA& a, const TA& b, size_t limit) {
	std::map<long, int> ib; int nb = 0;
	for (long q : b.states()) ib[q] = nb++;
	if (nb > 62) return -1;
	std::map<long, int> ia; int na = 0;
	for (long q : a.states()) ia[q] = na++;
	// B's rules grouped by symbol
	struct BR { int parent; std::vector<int> ch; };
	std::map<Sym, std::vector<BR>> brules;
	for (const Rule& r : b.rules) { BR x; x.parent = ib[r.parent]; for (long c : r.ch) x.ch.push_back(ib[c]); brules[Sym(r.sym, int(r.ch.size()))].push_back(x); }
	uint64_t fb = 0; for (long f : b.finals) fb |= 1ull << ib[f];
	std::vector<bool> fa(size_t(na), false); for (long f : a.finals) fa[size_t(ia[f])] = true;
	std::vector<std::set<uint64_t>> known(static_cast<size_t>(na));
	std::vector<std::vector<uint64_t>> kv(static_cast<size_t>(na));
	size_t total = 0; bool changed = true; size_t work = 0; const size_t work_limit = limit * 40;
	struct AR { int parent; Sym sym; std::vector<int> ch; };
	std::vector<AR> arules;
	for (const Rule& r : a.rules) { AR x; x.parent = ia[r.parent]; x.sym = Sym(r.sym, int(r.ch.size())); for (long c : r.ch) x.ch.push_back(ia[c]); arules.push_back(x); }
	while (changed) {
		changed = false;
		for (const AR& r : arules) {
			size_t k = r.ch.size();
			bool possible = true; for (int c : r.ch) if (kv[size_t(c)].empty()) { possible = false; break; }
			if (!possible) continue;
			const std::vector<BR>* brs = nullptr; auto it = brules.find(r.sym); if (it != brules.end()) brs = &it->second;
			std::vector<size_t> idx(k, 0);
			std::vector<size_t> lim(k); for (size_t i = 0; i < k; ++i) lim[i] = kv[size_t(r.ch[i])].size();
			while (true) {
				uint64_t S = 0;
				if ((work += 1 + (brs ? brs->size() : 0)) > work_limit) return -1;
				if (brs) for (const BR& br : *brs) {
					bool ok = true;
					for (size_t i = 0; i < k; ++i) if (!((kv[size_t(r.ch[i])][idx[i]] >> br.ch[i]) & 1)) { ok = false; break; }
					if (ok) S |= 1ull << br.parent;
				}
				if (known[size_t(r.parent)].insert(S).second) {
					kv[size_t(r.parent)].push_back(S); changed = true;
					if (fa[size_t(r.parent)] && !(S & fb)) return 0;
					if (++total > limit) return -1;
				}
				size_t i = 0;
				for (; i < k; ++i) { if (++idx[i] < lim[i]) break; idx[i] = 0; }
				if (i == k) break;
			}
		}
	}
	return 1;
}
int equiv(const TA& a, const TA& b, size_t limit) {
	int x = incl(a, b, limit); if (x <= 0) return x; return incl(b, a, limit);
}

int is_complement(const TA& a, const TA& c, const Alphabet& sigma, std::string* why, size_t limit) {
	// "accepts no tree that uses a symbol outside S": about trees, so only rules that take part in an accepting run count
	{ TA cu = trim_useless(c); for (const Sym& s : cu.symbols()) if (!sigma.count(s)) { if (why) *why = "the complement accepts a tree that uses symbol " + s.first + ":" + std::to_string(s.second) + ", which is outside the alphabet"; return 0; } }
	// A restricted to sigma (rules over other symbols cannot be used by trees over sigma)
	TA ar; ar.finals = a.finals; for (const Rule& r : a.rules) if (sigma.count(Sym(r.sym, int(r.ch.size())))) ar.rules.insert(r);
	TA both = isect(ar, c);
	if (!is_empty(both)) { if (why) *why = "some tree is accepted by both the automaton and its complement"; return 0; }
	TA univ; univ.finals.insert(0);
	for (const Sym& s : sigma) { Rule r; r.sym = s.first; r.parent = 0; r.ch.assign(size_t(s.second), 0); univ.rules.insert(r); }
	TA u = unite_tagged(ar, c);
	int x = incl(univ, u, limit);
	if (x == 0 && why) *why = "some tree over the alphabet is accepted by neither the automaton nor its complement";
	return x;
}

Rel down_sim(const TA& a) {
	std::set<long> st = a.states(); Rel R;
	for (long q : st) for (long r : st) R.insert(std::make_pair(q, r));
	std::map<long, std::vector<const Rule*>> by;
	for (const Rule& r : a.rules) by[r.parent].push_back(&r);
	bool ch = true;
	while (ch) {
		ch = false;
		for (auto it = R.begin(); it != R.end();) {
			long q = it->first, r = it->second; bool ok = true;
			for (const Rule* x : by[q]) {
				bool ans = false;
				for (const Rule* y : by[r]) {
					if (y->sym != x->sym || y->ch.size() != x->ch.size()) continue;
					bool all = true; for (size_t i = 0; i < x->ch.size(); ++i) if (!R.count(std::make_pair(x->ch[i], y->ch[i]))) { all = false; break; }
					if (all) { ans = true; break; }
				}
				if (!ans) { ok = false; break; }
			}
			if (!ok) { it = R.erase(it); ch = true; } else ++it;
		}
	}
	return R;
}

Rel up_sim(const TA& a) {
	std::set<long> st = a.states(); Rel R;
	for (long q : st) for (long r : st) if (!a.finals.count(q) || a.finals.count(r)) R.insert(std::make_pair(q, r));
	bool ch = true;
	while (ch) {
		ch = false;
		for (auto it = R.begin(); it != R.end();) {
			long q = it->first, r = it->second; bool ok = true;
			for (const Rule& x : a.rules) {
				for (size_t i = 0; i < x.ch.size() && ok; ++i) {
					if (x.ch[i] != q) continue;
					Rule want = x; want.ch[i] = r; bool ans = false;
					for (const Rule& y : a.rules) {
						if (y.sym != want.sym || y.ch != want.ch) continue;
						if (R.count(std::make_pair(x.parent, y.parent))) { ans = true; break; }
					}
					if (!ans) ok = false;
				}
				if (!ok) break;
			}
			if (!ok) { it = R.erase(it); ch = true; } else ++it;
		}
	}
	return R;
}

static void run_states(const TA& a, const Tree& t, std::set<long>& out) {
	std::vector<std::set<long>> cs(t.ch.size());
	for (size_t i = 0; i < t.ch.size(); ++i) run_states(a, t.ch[i], cs[i]);
	for (const Rule& r : a.rules) {
		if (r.sym != t.sym || r.ch.size() != t.ch.size()) continue;
		bool ok = true; for (size_t i = 0; i < r.ch.size(); ++i) if (!cs[i].count(r.ch[i])) { ok = false; break; }
		if (ok) out.insert(r.parent);
	}
}
bool accepts(const TA& a, const Tree& t) {
	std::set<long> s; run_states(a, t, s); for (long q : s) if (a.finals.count(q)) return true; return false;
}
void enum_trees(const Alphabet& sigma, int depth, std::vector<Tree>& out, size_t cap) {
	std::vector<Tree> prev;
	for (int d = 0; d <= depth; ++d) {
		std::vector<Tree> cur;
		for (const Sym& s : sigma) {
			size_t k = size_t(s.second);
			if (k == 0) { Tree t; t.sym = s.first; cur.push_back(t); continue; }
			if (prev.empty()) continue;
			std::vector<size_t> idx(k, 0);
			while (true) {
				Tree t; t.sym = s.first; for (size_t i = 0; i < k; ++i) t.ch.push_back(prev[idx[i]]);
				cur.push_back(t); if (cur.size() > cap) break;
				size_t i = 0; for (; i < k; ++i) { if (++idx[i] < prev.size()) break; idx[i] = 0; }
				if (i == k) break;
			}
			if (cur.size() > cap) break;
		}
		prev = cur; if (prev.size() > cap) break;
	}
	out = prev;
}
bool sample_tree(const TA& a, uint64_t seed, int max_depth, Tree& out) {
	// minimal derivation height per state
	std::map<long, int> h; bool ch = true;
	while (ch) {
		ch = false;
		for (const Rule& r : a.rules) {
			int m = 0; bool ok = true; for (long c : r.ch) { auto it = h.find(c); if (it == h.end()) { ok = false; break; } if (it->second + 1 > m) m = it->second + 1; }
			if (!ok) continue;
			auto it = h.find(r.parent); if (it == h.end() || it->second > m) { h[r.parent] = m; ch = true; }
		}
	}
	std::vector<long> roots; for (long f : a.finals) { auto it = h.find(f); if (it != h.end() && it->second <= max_depth) roots.push_back(f); }
	if (roots.empty()) return false;
	uint64_t st = seed * 0x9e3779b97f4a7c15ull + 12345;
	auto rnd = [&st](size_t n) { st ^= st << 13; st ^= st >> 7; st ^= st << 17; return n ? size_t(st % n) : size_t(0); };
	std::function<void(long, int, Tree&)> expand = [&](long q, int budget, Tree& t) {
		std::vector<const Rule*> cand;
		for (const Rule& r : a.rules) { if (r.parent != q) continue; bool ok = true; for (long c : r.ch) { auto it = h.find(c); if (it == h.end() || it->second + 1 > budget) { ok = false; break; } } if (ok) cand.push_back(&r); }
		const Rule* r = cand[rnd(cand.size())];      // non-empty: h[q] <= budget
		t.sym = r->sym; t.ch.resize(r->ch.size());
		for (size_t i = 0; i < r->ch.size(); ++i) expand(r->ch[i], budget - 1, t.ch[i]);
	};
	long root = roots[rnd(roots.size())];
	int budget = h[root] + int(rnd(size_t(max_depth - h[root] + 1)));
	expand(root, budget, out);
	return true;
}

std::string tree_str(const Tree& t) {
	std::string s = t.sym; if (!t.ch.empty()) { s += "("; for (size_t i = 0; i < t.ch.size(); ++i) s += (i ? "," : "") + tree_str(t.ch[i]); s += ")"; } return s;
}

// =================================================================== FA
std::set<long> FA::states() const {
	std::set<long> s(starts); s.insert(finals.begin(), finals.end());
	for (const Edge& e : edges) { s.insert(e.src); s.insert(e.dst); } return s;
}
uint64_t FA::hash() const {
	uint64_t h = 31; for (long s : starts) h = hmix(h, uint64_t(s) + 3); h = hmix(h, 0x77);
	for (long s : finals) h = hmix(h, uint64_t(s) + 5); h = hmix(h, 0x99);
	for (const Edge& e : edges) { h = hmix(h, uint64_t(e.src)); h = hmix(h, hstr(e.sym)); h = hmix(h, uint64_t(e.dst) + 11); }
	return h;
}
std::string to_lit(const FA& a) {
	std::ostringstream o; o << "S";
	for (long s : a.starts) {
		o << " " << s;
		auto it = a.start_syms.find(s);
		if (it != a.start_syms.end()) for (const std::string& y : it->second) o << ":" << y;
	}
	o << " ; F"; for (long s : a.finals) o << " " << s;
	for (const Edge& e : a.edges) o << " ; " << e.src << "-" << e.sym << ">" << e.dst;
	return o.str();
}
FA fa_from_lit(const std::string& s) {
	FA a; std::vector<std::string> parts; size_t p = 0;
	while (true) { size_t q = s.find(';', p); parts.push_back(s.substr(p, q == std::string::npos ? q : q - p)); if (q == std::string::npos) break; p = q + 1; }
	for (std::string t : parts) {
		t.erase(0, t.find_first_not_of(" ")); if (!t.empty()) t.erase(t.find_last_not_of(" ") + 1);
		if (t.empty()) continue;
		if (t[0] == 'S' && (t.size() == 1 || t[1] == ' ')) {
			std::istringstream is(t.substr(1)); std::string tok;
			while (is >> tok) {
				size_t c = tok.find(':'); long st = atol(tok.substr(0, c).c_str()); a.starts.insert(st);
				while (c != std::string::npos) { size_t n = tok.find(':', c + 1); a.start_syms[st].insert(tok.substr(c + 1, n == std::string::npos ? n : n - c - 1)); c = n; }
			}
		}
		else if (t[0] == 'F' && (t.size() == 1 || t[1] == ' ')) { std::istringstream is(t.substr(1)); long v; while (is >> v) a.finals.insert(v); }
		else {
			size_t d = t.find('-'), g = t.find('>');
			if (d == std::string::npos || g == std::string::npos) continue;
			Edge e; e.src = atol(t.substr(0, d).c_str()); e.sym = t.substr(d + 1, g - d - 1); e.dst = atol(t.c_str() + g + 1); a.edges.insert(e);
		}
	}
	return a;
}
std::string to_timbuk(const FA& a, const std::string& prefix) {
	std::ostringstream o; std::set<std::string> s1; std::set<std::string> s0;
	for (const Edge& e : a.edges) s1.insert(e.sym);
	for (long s : a.starts) { auto it = a.start_syms.find(s); if (it == a.start_syms.end() || it->second.empty()) s0.insert("x"); else s0.insert(it->second.begin(), it->second.end()); }
	o << "Ops";
	for (const std::string& s : s0) o << " " << s << ":0";
	for (const std::string& s : s1) o << " " << s << ":1";
	o << "\nAutomaton anonymous\nStates";
	for (long q : a.states()) o << " " << prefix << q;
	o << "\nFinal States"; for (long q : a.finals) o << " " << prefix << q;
	o << "\nTransitions\n";
	for (long s : a.starts) {
		auto it = a.start_syms.find(s);
		if (it == a.start_syms.end() || it->second.empty()) o << "x -> " << prefix << s << "\n";
		else for (const std::string& y : it->second) o << y << " -> " << prefix << s << "\n";
	}
	for (const Edge& e : a.edges) o << e.sym << "(" << prefix << e.src << ") -> " << prefix << e.dst << "\n";
	return o.str();
}

int incl(const FA& a, const FA& b, size_t limit) {
	std::map<long, int> ib; int nb = 0; for (long q : b.states()) ib[q] = nb++;
	if (nb > 62) return -1;
	std::set<std::string> sigma; for (const Edge& e : a.edges) sigma.insert(e.sym);
	uint64_t S0 = 0; for (long s : b.starts) S0 |= 1ull << ib[s];
	uint64_t fb = 0; for (long s : b.finals) fb |= 1ull << ib[s];
	std::set<std::pair<long, uint64_t>> seen; std::vector<std::pair<long, uint64_t>> work;
	for (long s : a.starts) if (seen.insert(std::make_pair(s, S0)).second) work.push_back(std::make_pair(s, S0));
	while (!work.empty()) {
		auto cur = work.back(); work.pop_back();
		if (a.finals.count(cur.first) && !(cur.second & fb)) return 0;
		for (const Edge& e : a.edges) {
			if (e.src != cur.first) continue;
			uint64_t T = 0;
			for (const Edge& f : b.edges) if (f.sym == e.sym && ((cur.second >> ib[f.src]) & 1)) T |= 1ull << ib[f.dst];
			auto nx = std::make_pair(e.dst, T);
			if (seen.insert(nx).second) { work.push_back(nx); if (seen.size() > limit) return -1; }
		}
	}
	return 1;
}
int equiv(const FA& a, const FA& b, size_t limit) { int x = incl(a, b, limit); if (x <= 0) return x; return incl(b, a, limit); }
FA rename(const FA& a, const std::map<long, long>& m) {
	auto f = [&](long q) { auto it = m.find(q); return it == m.end() ? q : it->second; };
	FA r; for (long s : a.starts) r.starts.insert(f(s)); for (long s : a.finals) r.finals.insert(f(s));
	for (const Edge& e : a.edges) { Edge x; x.src = f(e.src); x.sym = e.sym; x.dst = f(e.dst); r.edges.insert(x); }
	for (auto& kv : a.start_syms) r.start_syms[f(kv.first)].insert(kv.second.begin(), kv.second.end());
	return r;
}
FA unite(const FA& a, const FA& b) {
	FA r = a; r.edges.insert(b.edges.begin(), b.edges.end()); r.starts.insert(b.starts.begin(), b.starts.end()); r.finals.insert(b.finals.begin(), b.finals.end());
	for (auto& kv : b.start_syms) r.start_syms[kv.first].insert(kv.second.begin(), kv.second.end());
	return r;
}
FA unite_tagged(const FA& a, const FA& b) {
	std::map<long, long> m1, m2; long n = 0;
	for (long q : a.states()) m1[q] = n++;
	for (long q : b.states()) m2[q] = n++;
	return unite(rename(a, m1), rename(b, m2));
}
FA isect(const FA& a, const FA& b) {
	std::map<std::pair<long, long>, long> m; long n = 0;
	for (long p : a.states()) for (long q : b.states()) m[std::make_pair(p, q)] = n++;
	FA r;
	for (const Edge& x : a.edges) for (const Edge& y : b.edges) if (x.sym == y.sym) { Edge z; z.src = m[std::make_pair(x.src, y.src)]; z.sym = x.sym; z.dst = m[std::make_pair(x.dst, y.dst)]; r.edges.insert(z); }
	for (long p : a.starts) for (long q : b.starts) r.starts.insert(m[std::make_pair(p, q)]);
	for (long p : a.finals) for (long q : b.finals) r.finals.insert(m[std::make_pair(p, q)]);
	return r;
}
FA reverse(const FA& a) {
	FA r; r.starts = a.finals; r.finals = a.starts;
	for (const Edge& e : a.edges) { Edge x; x.src = e.dst; x.sym = e.sym; x.dst = e.src; r.edges.insert(x); }
	return r;
}
bool is_empty(const FA& a) {
	std::set<long> seen(a.starts); std::vector<long> w(a.starts.begin(), a.starts.end());
	while (!w.empty()) { long q = w.back(); w.pop_back(); if (a.finals.count(q)) return false; for (const Edge& e : a.edges) if (e.src == q && seen.insert(e.dst).second) w.push_back(e.dst); }
	return true;
}
Rel fwd_sim(const FA& a, const std::set<long>& dom) {
	std::map<long, std::map<std::string, std::set<long>>> post;
	for (const Edge& e : a.edges) post[e.src][e.sym].insert(e.dst);
	Rel r;
	for (long p : dom) for (long q : dom) if (!a.finals.count(p) || a.finals.count(q)) r.insert(std::make_pair(p, q));
	bool changed = true;
	while (changed) {
		changed = false;
		for (auto it = r.begin(); it != r.end();) {
			long p = it->first, q = it->second; bool ok = true;
			auto pp = post.find(p);
			if (pp != post.end()) for (auto& sy : pp->second) {
				const std::set<long>* qs = nullptr; auto qq = post.find(q); if (qq != post.end()) { auto z = qq->second.find(sy.first); if (z != qq->second.end()) qs = &z->second; }
				for (long p2 : sy.second) { bool m = false; if (qs) for (long q2 : *qs) if (r.count(std::make_pair(p2, q2))) { m = true; break; } if (!m) { ok = false; break; } }
				if (!ok) break;
			}
			if (!ok) { it = r.erase(it); changed = true; } else ++it;
		}
	}
	return r;
}

bool accepts(const FA& a, const std::vector<std::string>& w) {
	std::set<long> cur(a.starts);
	for (const std::string& s : w) { std::set<long> nx; for (const Edge& e : a.edges) if (e.sym == s && cur.count(e.src)) nx.insert(e.dst); cur.swap(nx); }
	for (long q : cur) if (a.finals.count(q)) return true; return false;
}

// =================================================================== independent Timbuk reader
static std::string trim_ws(const std::string& s) {
	size_t a = s.find_first_not_of(" \t\r\n\v\f"); if (a == std::string::npos) return "";
	size_t b = s.find_last_not_of(" \t\r\n\v\f"); return s.substr(a, b - a + 1);
}
bool parse_timbuk_ref(const std::string& text, Desc& d, std::string* err) {
	d = Desc(); std::istringstream in(text); std::string line; bool in_trans = false;
	auto fail = [&](const std::string& m) { if (err) *err = m; return false; };
	while (std::getline(in, line)) {
		std::string t = trim_ws(line); if (t.empty()) continue;
		if (!in_trans) {
			std::istringstream ls(t); std::string w; ls >> w;
			if (w == "Transitions") { in_trans = true; continue; }
			if (w == "Automaton") { ls >> d.name; continue; }
			if (w == "Ops") { std::string tok; while (ls >> tok) { size_t c = tok.rfind(':'); if (c == std::string::npos) d.ops.insert(Sym(tok, -1)); else d.ops.insert(Sym(tok.substr(0, c), atoi(tok.c_str() + c + 1))); } continue; }
			if (w == "States") { std::string tok; while (ls >> tok) { size_t c = tok.find(':'); d.states.insert(tok.substr(0, c)); } continue; }
			if (w == "Final") { std::string tok; ls >> tok; if (tok != "States") return fail("Final without States"); while (ls >> tok) { size_t c = tok.find(':'); d.finals.insert(tok.substr(0, c)); } continue; }
			return fail("unexpected line: " + t);
		}
		size_t ar = t.find("->"); if (ar == std::string::npos) return fail("no arrow: " + t);
		std::string lhs = trim_ws(t.substr(0, ar)), rhs = trim_ws(t.substr(ar + 2));
		if (rhs.empty()) return fail("empty rhs");
		std::vector<std::string> ch; std::string sym = lhs; size_t lp = lhs.find('(');
		if (lp != std::string::npos) {
			size_t rp = lhs.rfind(')'); if (rp == std::string::npos || rp < lp) return fail("bad parens");
			sym = trim_ws(lhs.substr(0, lp)); std::string in2 = lhs.substr(lp + 1, rp - lp - 1); size_t p = 0;
			if (!trim_ws(in2).empty()) while (true) { size_t q = in2.find(',', p); ch.push_back(trim_ws(in2.substr(p, q == std::string::npos ? q : q - p))); if (q == std::string::npos) break; p = q + 1; }
		}
		if (sym.empty()) return fail("empty symbol");
		d.trans.insert(std::make_tuple(sym, ch, rhs));
	}
	if (!in_trans) return fail("no Transitions section");
	return true;
}
std::string desc_to_timbuk(const Desc& d, bool parens) {
	std::ostringstream o; o << "Ops";
	for (const Sym& s : d.ops) { o << " " << s.first; if (s.second >= 0) o << ":" << s.second; }      // a symbol may be declared without a rank
	o << "\nAutomaton " << (d.name.empty() ? "anonymous" : d.name) << "\nStates";
	for (const std::string& s : d.states) o << " " << s;
	o << "\nFinal States"; for (const std::string& s : d.finals) o << " " << s;
	o << "\nTransitions\n";
	for (auto& t : d.trans) {
		o << std::get<0>(t);
		if (!std::get<1>(t).empty() || parens) { o << "("; for (size_t i = 0; i < std::get<1>(t).size(); ++i) o << (i ? "," : "") << std::get<1>(t)[i]; o << ")"; }
		o << " -> " << std::get<2>(t) << "\n";
	}
	return o.str();
}
static bool state_num(const std::string& s, const std::string& prefix, long& out) {
	if (s.compare(0, prefix.size(), prefix) != 0 || s.size() == prefix.size()) return false;
	size_t at = prefix.size();
	// a dump written without a state dictionary names states by their numbers; a decoration in front of the number ("q5") is tolerated
	if (prefix.empty()) while (at < s.size() && !(s[at] >= '0' && s[at] <= '9')) ++at;
	if (at == s.size()) return false;
	char* e = nullptr; errno = 0; out = strtol(s.c_str() + at, &e, 10); return *e == 0 && errno == 0 && out >= 0;
}
bool desc_to_ta(const Desc& d, const std::string& prefix, TA& out) {
	out = TA(); long v;
	for (const std::string& f : d.finals) { if (!state_num(f, prefix, v)) return false; out.finals.insert(v); }
	for (auto& t : d.trans) {
		Rule r; r.sym = std::get<0>(t); if (!state_num(std::get<2>(t), prefix, v)) return false; r.parent = v;
		for (const std::string& c : std::get<1>(t)) { if (!state_num(c, prefix, v)) return false; r.ch.push_back(v); }
		out.rules.insert(r);
	}
	return true;
}
bool desc_to_fa(const Desc& d, const std::string& prefix, FA& out) {
	out = FA(); long v, w;
	for (const std::string& f : d.finals) { if (!state_num(f, prefix, v)) return false; out.finals.insert(v); }
	for (auto& t : d.trans) {
		if (!state_num(std::get<2>(t), prefix, v)) return false;
		if (std::get<1>(t).empty()) { out.starts.insert(v); out.start_syms[v].insert(std::get<0>(t)); continue; }
		if (std::get<1>(t).size() != 1 || !state_num(std::get<1>(t)[0], prefix, w)) return false;
		Edge e; e.src = w; e.sym = std::get<0>(t); e.dst = v; out.edges.insert(e);
	}
	return true;
}

// =================================================================== MTBDD reference
// canonical reduced-ordered node count of a set of functions sharing nodes
// (variable order as in OndriksMTBDD: the HIGHEST variable index at the root).
size_t robdd_nodes(const std::vector<Fn>& fns, int k, size_t* leaves, size_t* internals) {
	// a sub-function over variables 0..j-1 is identified by its table of 2^j values
	std::set<std::vector<long>> leafset; std::set<std::pair<int, std::vector<long>>> inner;
	std::function<void(const std::vector<long>&, int)> rec = [&](const std::vector<long>& t, int j) {
		bool constant = true; for (long v : t) if (v != t[0]) { constant = false; break; }
		if (constant) { leafset.insert(std::vector<long>(1, t[0])); return; }
		// split on variable j-1 (most significant remaining)
		size_t half = t.size() / 2;
		std::vector<long> lo(t.begin(), t.begin() + long(half)), hi(t.begin() + long(half), t.end());
		if (lo == hi) { rec(lo, j - 1); return; }
		if (!inner.insert(std::make_pair(j, t)).second) return;
		rec(lo, j - 1); rec(hi, j - 1);
	};
	for (const Fn& f : fns) rec(f.v, k);
	if (leaves) *leaves = leafset.size(); if (internals) *internals = inner.size();
	return leafset.size() + inner.size();
}

} // namespace mdl
