// C19: invariance under renaming / insertion order / symbol registration order
// (the "schedule" of one abstract input), the laws of language inclusion, and
// the expected-verdict tables shipped with the repository.  No reference model
// is needed: twins and variants are compared with each other.
#include "world.hh"
#include "profiles.hh"

#include <vata/vata.hh>
#include <vata/explicit_tree_aut.hh>
#include <vata/explicit_finite_aut.hh>
#include <vata/parsing/timbuk_parser.hh>
#include <vata/serialization/timbuk_serializer.hh>
#include <vata/util/util.hh>

#define startTime startTime_c19
#include "operations.hh"
#undef startTime

#include <fstream>
#include <sstream>
#include <algorithm>
#include <dirent.h>

using namespace vsim;
using mdl::TA; using mdl::Rule;
typedef VATA::ExplicitTreeAut ET;
typedef VATA::ExplicitFiniteAut EF;
typedef VATA::AutBase::StateType StateType;

namespace {

// C19's oracles judge in C19 runs only (a C20 run makes the same calls under the monitors alone)
void c19_violation(const std::string& o, const std::string& si, const std::string& d) { if (armed("C19")) vsim::violation(o, si, d); }


const char* const SEL_NAMES[] = {"up-nosim", "up-sim", "down-nonrec-nosim", "down-nonrec-sim", "down-rec-nosim", "down-rec-sim", "down-rec-opt-nosim", "down-rec-opt-sim"};

ET::AlphabetType fresh_alphabet() { return ET::AlphabetType(new ET::OnTheFlyAlphabet()); }

// build an automaton from a model: rules in a drawn order, symbols registered in a drawn order
ET build(const TA& m, ET::AlphabetType& al, Rng& r, bool shuffle) {
	ET a; a.SetAlphabet(al);
	auto tr = al->GetSymbolTransl();
	std::vector<mdl::Sym> syms; for (auto& y : m.symbols()) syms.push_back(y);
	if (shuffle) for (size_t i = syms.size(); i > 1; --i) std::swap(syms[i - 1], syms[r.below(i)]);
	for (auto& y : syms) (*tr)(ET::StringRank(y.first, size_t(y.second)));
	std::vector<Rule> rules(m.rules.begin(), m.rules.end());
	if (shuffle) for (size_t i = rules.size(); i > 1; --i) std::swap(rules[i - 1], rules[r.below(i)]);
	for (const Rule& x : rules) { ET::StateTuple ch; for (long c : x.ch) ch.push_back(StateType(c)); a.AddTransition(ch, (*tr)(ET::StringRank(x.sym, x.ch.size())), StateType(x.parent)); }
	std::vector<long> fin(m.finals.begin(), m.finals.end());
	if (shuffle) for (size_t i = fin.size(); i > 1; --i) std::swap(fin[i - 1], fin[r.below(i)]);
	for (long f : fin) a.SetStateFinal(StateType(f));
	return a;
}

TA read_back(const ET& aut) {
	TA m; auto bt = aut.GetAlphabet()->GetSymbolBackTransl();
	for (const ET::Transition& t : aut) { Rule x; x.parent = long(t.GetParent()); x.sym = (*bt)(t.GetSymbol()).symbolStr; for (StateType c : t.GetChildren()) x.ch.push_back(long(c)); m.rules.insert(x); }
	for (StateType f : aut.GetFinalStates()) m.finals.insert(long(f));
	return m;
}

std::map<long, long> bijection(const TA& a, Rng& r, bool sparse) {
	std::set<long> st = a.states(); std::vector<long> v(st.begin(), st.end()), img;
	if (sparse) { std::set<long> u; while (u.size() < v.size()) u.insert(long(r.below(5000))); img.assign(u.begin(), u.end()); }
	else for (size_t i = 0; i < v.size(); ++i) img.push_back(long(i) + long(r.below(3)) * 0);
	for (size_t i = img.size(); i > 1; --i) std::swap(img[i - 1], img[r.below(i)]);
	std::map<long, long> m; for (size_t i = 0; i < v.size(); ++i) m[v[i]] = img[i]; return m;
}

int incl(const ET& a, const ET& b, long sel, const std::string& site) {
	bool down = sel >= 2, rec = sel >= 4, opt = sel >= 6, sim = sel & 1;
	api_begin(); api_site(site, BUDGET_INCONCLUSIVE, g_tier == "thorough" ? (sel < 2 ? 60000000 : 20000000) : (sel < 2 ? 12000000 : 4000000));
	int v;
	try {
		if (!sim) { VATA::InclParam ip; ip.SetDirection(down ? VATA::InclParam::e_direction::downward : VATA::InclParam::e_direction::upward); ip.SetUseRecursion(rec); ip.SetUseDownwardCacheImpl(opt); v = ET::CheckInclusion(a, b, ip) ? 1 : 0; }
		else { Arguments args; args.options["dir"] = down ? "down" : "up"; args.options["rec"] = rec ? "yes" : "no"; args.options["optC"] = opt ? "yes" : "no"; args.options["sim"] = "yes"; v = ::CheckInclusion<ET>(a, b, args) ? 1 : 0; }
	} catch (const VATA::NotImplementedException&) { v = 2; }
	api_end(); observe(uint64_t(v)); count(c_oracle_evals);
	(v == 1 ? count(c_verdict_true) : count(c_verdict_false));
	return v;
}

// dense numbering in visiting order + simulation, as the CLI does; returns relation over ORIGINAL states
bool sim_of(const ET& a, bool up, std::set<std::pair<long, long>>& rel, const TA& model) {
	VATA::AutBase::StateToStateMap sm; StateType cnt = 0;
	VATA::AutBase::StateToStateTranslWeak tr(sm, [&cnt](const StateType&) { return cnt++; });
	api_begin(); api_site(up ? "c19:sim-up" : "c19:sim-down");
	ET dense = a.ReindexStates(tr);
	if (cnt == 0) { api_end(); return false; }
	VATA::SimParam sp; sp.SetNumStates(cnt); sp.SetRelation(up ? VATA::SimParam::e_sim_relation::TA_UPWARD : VATA::SimParam::e_sim_relation::TA_DOWNWARD);
	VATA::AutBase::StateDiscontBinaryRelation R = dense.ComputeSimulation(sp);
	api_end();
	for (long q : model.states()) for (long p : model.states()) { count(c_sim_pairs_checked); if (R.get(sm.at(StateType(q)), sm.at(StateType(p)))) rel.insert(std::make_pair(q, p)); }
	return true;
}

void twin_checks(const std::string& site, const TA& A, const TA& B, Rng& r, long selmask, bool do_sim, bool do_sizes, int expected /* -1 unknown */) {
	ET::AlphabetType al1 = fresh_alphabet(), al2 = fresh_alphabet();
	ET a = build(A, al1, r, false), b = build(B, al1, r, false);
	// the twin: another bijective numbering, another insertion order, another symbol registration order
	std::map<long, long> pa = bijection(A, r, r.chance(1, 2)), pb = bijection(B, r, r.chance(1, 2));
	TA A2 = mdl::rename(A, pa), B2 = mdl::rename(B, pb);
	{ // foreign symbols registered first: symbol numbers differ between the two worlds
		auto tr = al2->GetSymbolTransl(); int k = r.range(0, 3); for (int i = 0; i < k; ++i) (*tr)(ET::StringRank("zz" + std::to_string(i), size_t(r.below(3)))); }
	ET a2 = build(A2, al2, r, true), b2 = build(B2, al2, r, true);
	count(c_twin_checks);
	int first = -1; long firstsel = -1;
	for (long sel = 0; sel < 8; ++sel) {
		if (!((selmask >> sel) & 1)) continue;
		int v = incl(a, b, sel, site + ":" + SEL_NAMES[sel]), v2 = incl(a2, b2, sel, site + ":twin:" + SEL_NAMES[sel]);
		if (v == 2 || v2 == 2) { c19_violation("C19.selection-implemented", site + ":" + SEL_NAMES[sel], "an implemented selection threw NotImplementedException"); continue; }
		if (v != v2) c19_violation("C19.verdict-invariant-under-renaming", site + ":" + SEL_NAMES[sel], "inclusion verdict " + std::to_string(v) + " for the pair, " + std::to_string(v2) + " for its renamed / re-ordered twin\n  A: " + mdl::to_lit(A).substr(0, 600) + "\n  B: " + mdl::to_lit(B).substr(0, 600));
		if (expected >= 0 && v != expected) c19_violation("C19.expected-verdict", site + ":" + SEL_NAMES[sel], "the repository's table expects " + std::to_string(expected) + ", the check returned " + std::to_string(v));
		if (first < 0) { first = v; firstsel = sel; } else if (v != first) c19_violation("C19.all-algorithms-agree", site + ":" + SEL_NAMES[sel], std::string(SEL_NAMES[firstsel]) + " says " + std::to_string(first) + ", " + SEL_NAMES[sel] + " says " + std::to_string(v) + "\n  A: " + mdl::to_lit(A).substr(0, 600) + "\n  B: " + mdl::to_lit(B).substr(0, 600));
	}
	// emptiness
	api_begin(); api_site(site + ":is-empty"); bool e1 = a.IsLangEmpty(), e2 = a2.IsLangEmpty(); api_end(); observe(uint64_t(e1)); count(c_oracle_evals);
	if (e1 != e2) c19_violation("C19.emptiness-invariant-under-renaming", site, "IsLangEmpty differs between an automaton and its renamed twin");
	(e1 ? count(c_lang_empty) : count(c_lang_nonempty));
	if (do_sim) {
		for (int up = 0; up < 2; ++up) {
			ET x = a, x2 = a2; TA mx = A, mx2 = A2;
			// results of the library's operations carry the process-wide default alphabet, whatever the operand's
			// was; the client re-attaches its own alphabet before reading them through symbol names
			// the upward simulation is defined on automata without useless states.  The twins are trimmed by the reference model and
			// built anew, so that the only library result compared here is the simulation ("maps a computed simulation relation to its
			// renamed image"); whether the library's own trimming keeps state names is nobody's claim
			if (up) { mx = mdl::trim_useless(A); if (mx.states().empty()) continue; mx2 = mdl::rename(mx, pa); api_begin(); api_site(site + ":build-trimmed"); x = build(mx, al1, r, false); x2 = build(mx2, al2, r, true); api_end(); }
			std::set<std::pair<long, long>> R1, R2;
			if (!sim_of(x, up, R1, mx) || !sim_of(x2, up, R2, mx2)) continue;
			std::set<std::pair<long, long>> img; for (auto& pr : R1) img.insert(std::make_pair(pa[pr.first], pa[pr.second]));
			count(c_oracle_evals);
			if (img != R2) c19_violation(up ? "C19.up-sim-invariant-under-renaming" : "C19.down-sim-invariant-under-renaming", site + (up ? ":sim-up" : ":sim-down"), "the simulation of the renamed twin is not the renamed image of the simulation (" + std::to_string(R1.size()) + " vs " + std::to_string(R2.size()) + " pairs)\n  A: " + mdl::to_lit(mx).substr(0, 800));
		}
	}
	if (do_sizes) {
		api_begin(); api_site(site + ":sizes");
		ET r1 = a.Reduce(), r2 = a2.Reduce(), u1 = a.RemoveUselessStates(), u2 = a2.RemoveUselessStates(), n1 = a.RemoveUnreachableStates(), n2 = a2.RemoveUnreachableStates();
		r1.SetAlphabet(al1); u1.SetAlphabet(al1); n1.SetAlphabet(al1); r2.SetAlphabet(al2); u2.SetAlphabet(al2); n2.SetAlphabet(al2);
		api_end(); count(c_oracle_evals);
		if (read_back(r1).states().size() != read_back(r2).states().size()) c19_violation("C19.reduce-size-invariant", site, "Reduce yields " + std::to_string(read_back(r1).states().size()) + " states for the automaton and " + std::to_string(read_back(r2).states().size()) + " for its twin\n  A: " + mdl::to_lit(A).substr(0, 800));
		if (read_back(u1).states().size() != read_back(u2).states().size()) c19_violation("C19.trim-size-invariant", site, "RemoveUselessStates yields different state counts for twins");
		if (read_back(n1).states().size() != read_back(n2).states().size()) c19_violation("C19.trim-size-invariant", site, "RemoveUnreachableStates yields different state counts for twins");
	}
	note_case(mix64(A.hash(), B.hash()));
}

void split3(const std::string& lit, std::vector<std::string>& out) { size_t p = 0; while (true) { size_t q = lit.find(" || ", p); out.push_back(lit.substr(p, q == std::string::npos ? q : q - p)); if (q == std::string::npos) break; p = q + 4; } }

void op_twins(const Step& s) {
	std::vector<std::string> parts; split3(s.lit, parts); if (parts.size() < 2) throw Skip();
	TA A = mdl::from_lit(parts[0]), B = mdl::from_lit(parts[1]); Rng r(uint64_t(s.arg(0)) + 61);
	twin_checks("c19_twins", A, B, r, s.arg(1, 255), (s.arg(2) & 1) != 0, (s.arg(2) & 2) != 0, -1);
}

void expect_incl(const std::string& law, const ET& x, const ET& y, long sel, const std::string& what) {
	int v = incl(x, y, sel, "c19_laws:" + law + ":" + SEL_NAMES[sel]); count(c_law_checks);
	if (v != 1) c19_violation("C19.law-" + law, std::string("c19_laws:") + SEL_NAMES[sel], "the law " + what + " is violated: verdict " + std::to_string(v));
}

void op_laws(const Step& s) {
	std::vector<std::string> parts; split3(s.lit, parts); if (parts.size() < 3) throw Skip();
	TA A = mdl::from_lit(parts[0]), B = mdl::from_lit(parts[1]), C = mdl::from_lit(parts[2]); Rng r(uint64_t(s.arg(0)) + 67);
	ET::AlphabetType al = fresh_alphabet(); ET a = build(A, al, r, true), b = build(B, al, r, true), c = build(C, al, r, true);
	auto sel = [&]() { return long(r.below(8)); };
	for (long k = 0; k < 8; ++k) if ((s.arg(1, 255) >> k) & 1) expect_incl("reflexive", a, a, k, "A <= A");
	api_begin(); api_site("c19_laws:ops");
	ET u = ET::Union(a, b), x = ET::Intersection(a, b), xb = ET::IntersectionBU(a, b), red = a.Reduce(), us = a.RemoveUselessStates(), un = a.RemoveUnreachableStates();
	std::map<long, long> pm = bijection(A, r, true); struct F : public VATA::AbstractReindexF { std::map<long, long> m; virtual StateType operator[](const StateType& q) override { return StateType(m.at(long(q))); } virtual StateType at(const StateType& q) const override { return StateType(m.at(long(q))); } } f; f.m = pm;
	ET re = a.ReindexStates(f);
	VATA::Parsing::TimbukParser parser; VATA::Serialization::TimbukSerializer ser; ET rl; rl.SetAlphabet(al); rl.LoadFromString(parser, a.DumpToString(ser));
	api_end();
	expect_incl("union-upper-bound", a, u, sel(), "A <= A u B"); expect_incl("union-upper-bound", b, u, sel(), "B <= A u B");
	expect_incl("isect-lower-bound", x, a, sel(), "A n B <= A"); expect_incl("isect-lower-bound", x, b, sel(), "A n B <= B");
	expect_incl("isect-lower-bound", xb, a, sel(), "A n B <= A (bottom-up product)"); expect_incl("isect-variants-equal", x, xb, sel(), "Intersection <= IntersectionBU"); expect_incl("isect-variants-equal", xb, x, sel(), "IntersectionBU <= Intersection");
	expect_incl("equivalent-forms", a, red, sel(), "A <= Reduce(A)"); expect_incl("equivalent-forms", red, a, sel(), "Reduce(A) <= A");
	expect_incl("equivalent-forms", a, us, sel(), "A <= useless-free A"); expect_incl("equivalent-forms", us, a, sel(), "useless-free A <= A");
	expect_incl("equivalent-forms", a, un, sel(), "A <= reachable A"); expect_incl("equivalent-forms", un, a, sel(), "reachable A <= A");
	expect_incl("equivalent-forms", a, re, sel(), "A <= re-indexed A"); expect_incl("equivalent-forms", re, a, sel(), "re-indexed A <= A");
	expect_incl("equivalent-forms", a, rl, sel(), "A <= dumped-and-reloaded A"); expect_incl("equivalent-forms", rl, a, sel(), "dumped-and-reloaded A <= A");
	// transitivity on the triple
	long s1 = sel(), s2 = sel(), s3 = sel();
	int ab = incl(a, b, s1, std::string("c19_laws:transitive:") + SEL_NAMES[s1]), bc = incl(b, c, s2, std::string("c19_laws:transitive:") + SEL_NAMES[s2]);
	if (ab == 1 && bc == 1) { int ac = incl(a, c, s3, std::string("c19_laws:transitive:") + SEL_NAMES[s3]); count(c_law_checks); if (ac != 1) c19_violation("C19.law-transitive", std::string("c19_laws:") + SEL_NAMES[s3], "A <= B and B <= C hold but A <= C is denied"); }
	// union is an upper bound that is least among B's above: if A <= C and B <= C then A u B <= C
	if (incl(a, c, s1, std::string("c19_laws:lub:") + SEL_NAMES[s1]) == 1 && incl(b, c, s2, std::string("c19_laws:lub:") + SEL_NAMES[s2]) == 1) { count(c_law_checks); if (incl(u, c, s3, std::string("c19_laws:lub:") + SEL_NAMES[s3]) != 1) c19_violation("C19.law-union-least", std::string("c19_laws:") + SEL_NAMES[s3], "A <= C and B <= C hold but A u B <= C is denied"); }
	note_case(mix64(A.hash(), mix64(B.hash(), C.hash())));
}

// ----------------------------------------------------------------- corpus
TA load_file_model(const std::string& path, ET::AlphabetType& al) {
	VATA::Parsing::TimbukParser parser; ET a; a.SetAlphabet(al);
	api_begin(); api_site("c19_corpus:load");
	std::string text = VATA::Util::ReadFile(path); count(c_readfile_real);
	a.LoadFromString(parser, text);
	api_end();
	return read_back(a);
}

void op_corpus_tree(const Step& s) {
	std::vector<std::string> parts; split3(s.lit, parts); if (parts.size() < 2) throw Skip();
	ET::AlphabetType al = fresh_alphabet(); TA A = load_file_model(parts[0], al), B = load_file_model(parts[1], al);
	Rng r(uint64_t(s.arg(0)) + 71); count(c_corpus_ops);
	twin_checks("c19_corpus", A, B, r, s.arg(1), (s.arg(2) & 1) != 0, (s.arg(2) & 2) != 0, int(s.arg(3, -1)));
}

mdl::FA fa_read_back(const EF& a) { VATA::Serialization::TimbukSerializer ser; mdl::Desc d; mdl::FA f; std::string e; if (!mdl::parse_timbuk_ref(a.DumpToString(ser), d, &e) || !mdl::desc_to_fa(d, "", f)) harness_error("cannot read back a corpus NFA: " + e); return f; }

int fa_incl(const EF& a, const EF& b, long alg, const std::string& site) {
	VATA::InclParam ip; if (alg == 0) ip.SetAlgorithm(VATA::InclParam::e_algorithm::antichains); else { ip.SetAlgorithm(VATA::InclParam::e_algorithm::congruences); ip.SetSearchOrder(alg == 1 ? VATA::InclParam::e_search_order::depth : VATA::InclParam::e_search_order::breadth); }
	api_begin(); api_site(site, BUDGET_INCONCLUSIVE, g_tier == "thorough" ? 60000000 : 8000000);
	int v = EF::CheckInclusion(a, b, ip) ? 1 : 0; api_end(); observe(uint64_t(v)); count(c_oracle_evals); (v ? count(c_verdict_true) : count(c_verdict_false)); return v;
}

void op_corpus_fa(const Step& s) {
	std::vector<std::string> parts; split3(s.lit, parts); if (parts.size() < 2) throw Skip();
	VATA::Parsing::TimbukParser parser; Rng r(uint64_t(s.arg(0)) + 73); count(c_corpus_ops);
	EF a, b;
	api_begin(); api_site("c19_corpus_fa:load");
	a.LoadFromString(parser, VATA::Util::ReadFile(parts[0])); b.LoadFromString(parser, VATA::Util::ReadFile(parts[1])); count(c_readfile_real, 2);
	api_end();
	// twin: renamed states (dense, shuffled), rebuilt edge by edge in a drawn order after unrelated symbols were registered
	mdl::FA A = fa_read_back(a), B = fa_read_back(b);
	auto twin = [&](const mdl::FA& m) { std::set<long> st = m.states(); std::vector<long> v(st.begin(), st.end()), img(v.size()); for (size_t i = 0; i < v.size(); ++i) img[i] = long(i); for (size_t i = img.size(); i > 1; --i) std::swap(img[i - 1], img[r.below(i)]); std::map<long, long> p; for (size_t i = 0; i < v.size(); ++i) p[v[i]] = img[i]; return mdl::rename(m, p); };
	mdl::FA A2 = twin(A), B2 = twin(B);
	auto buildfa = [&](const mdl::FA& m) { EF x; auto tr = x.GetAlphabet()->GetSymbolTransl(); std::vector<mdl::Edge> ed(m.edges.begin(), m.edges.end()); for (size_t i = ed.size(); i > 1; --i) std::swap(ed[i - 1], ed[r.below(i)]); for (long q : m.starts) x.SetStateStart(StateType(q), (*tr)("x")); for (auto& e : ed) x.AddTransition(StateType(e.src), (*tr)(e.sym), StateType(e.dst)); for (long q : m.finals) x.SetStateFinal(StateType(q)); return x; };
	{ EF dummy; auto tr = dummy.GetAlphabet()->GetSymbolTransl(); (*tr)("zz" + std::to_string(r.below(50))); }
	api_begin(); api_site("c19_corpus_fa:build-twin"); EF a2 = buildfa(A2), b2 = buildfa(B2); api_end();
	count(c_twin_checks);
	int first = -1;
	for (long alg = 0; alg < 3; ++alg) {
		if (!((s.arg(1, 7) >> alg) & 1)) continue;
		const char* an[] = {"antichains", "congr-depth", "congr-breadth"};
		int v = fa_incl(a, b, alg, std::string("c19_corpus_fa:") + an[alg]), v2 = fa_incl(a2, b2, alg, std::string("c19_corpus_fa:twin:") + an[alg]);
		if (v != v2) c19_violation("C19.verdict-invariant-under-renaming", std::string("c19_corpus_fa:") + an[alg], "NFA inclusion verdict " + std::to_string(v) + " for " + parts[0] + " <= " + parts[1] + ", " + std::to_string(v2) + " for the renamed twins");
		if (first < 0) first = v; else if (v != first) c19_violation("C19.all-algorithms-agree", std::string("c19_corpus_fa:") + an[alg], "NFA inclusion algorithms disagree on " + parts[0] + " <= " + parts[1]);
	}
	if (parts[0] == parts[1] && first == 0) c19_violation("C19.law-reflexive", "c19_corpus_fa", "A <= A denied for " + parts[0]);
	note_case(mix64(hash_str(parts[0]), hash_str(parts[1])));
}

// ----------------------------------------------------------------- generators
struct Pair { std::string a, b; int expected; };
std::vector<Pair>& tree_pairs() {
	static std::vector<Pair> v; static bool done = false; if (done) return v; done = true;
	{ std::ifstream in("/repo/tests/aut_timbuk_smaller_incl.txt"); std::string a, b; int e; while (in >> a >> b >> e) v.push_back(Pair{"/repo/tests/aut_timbuk_smaller/" + a, "/repo/tests/aut_timbuk_smaller/" + b, e}); }
	{ std::ifstream in("/repo/automata/inclusion_timbuk.txt"); std::string a, b; int e; while (in >> a >> b >> e) v.push_back(Pair{"/repo/automata/" + a, "/repo/automata/" + b, e}); }
	return v;
}
std::vector<std::string> list_dir(const std::string& d) { std::vector<std::string> f; DIR* dp = opendir(d.c_str()); if (!dp) return f; while (dirent* e = readdir(dp)) { std::string n = e->d_name; if (n != "." && n != "..") f.push_back(d + "/" + n); } closedir(dp); std::sort(f.begin(), f.end()); return f; }

} // namespace

namespace vsim {

Plan plan_C19(Rng& r, const std::string& tier) {
	Plan p; p.env = gen::gen_env(r, false); p.clients = 1;
	gen::Pool pool = gen::make_pool(r, 5, r.chance(1, 6) ? 3 : 2);
	// unrelated history in the same process first (another client's loads and churn)
	if (r.chance(1, 2)) { p.clients = 2; auto f = foreign_program(r, 1, pool, r.range(2, 8)); p.steps.insert(p.steps.end(), f.begin(), f.end()); }
	uint64_t x = r.below(100);
	if (x < 45) {
		gen::TAOpts o; o.max_states = r.chance(1, 4) ? r.range(7, 14) : r.range(1, 6); o.sparse = r.chance(1, 3);
		TA A, B; gen::gen_incl_pair(r, pool, o.max_states, o.sparse, A, B);
		long mask = o.max_states > 6 ? (3 | (r.chance(1, 2) ? 0x30 : 0)) : 255;      // big ones: upward always, downward recursive sometimes
		p.steps.push_back(gen::mk(0, "c19_twins", {long(r.below(1000000)), mask, 3}, mdl::to_lit(A) + " || " + mdl::to_lit(B)));
	} else if (x < 75) {
		gen::TAOpts o; o.max_states = r.range(1, 5);
		TA A = gen::gen_ta(r, pool, o), B = r.chance(1, 2) ? gen::derive_ta(r, pool, A, 1) : gen::gen_ta(r, pool, o), C = r.chance(1, 2) ? gen::derive_ta(r, pool, B, 1) : gen::gen_ta(r, pool, o);
		p.steps.push_back(gen::mk(0, "c19_laws", {long(r.below(1000000)), 255}, mdl::to_lit(A) + " || " + mdl::to_lit(B) + " || " + mdl::to_lit(C)));
	} else if (x < 90) {
		auto& pairs = tree_pairs(); if (pairs.empty()) return p;
		const Pair& pr = pairs[r.below(pairs.size())];
		// one cheap and, sometimes, one expensive selection per run: the downward algorithms can need minutes on some shipped pairs (budget => inconclusive)
		long mask = 1 | (r.chance(1, 2) ? 2 : 0); if (tier == "thorough" || r.chance(1, 4)) mask |= 1l << (2 + r.below(6));
		p.steps.push_back(gen::mk(0, "c19_corpus_tree", {long(r.below(1000000)), mask, long(r.below(4)), pr.expected}, pr.a + " || " + pr.b));
	} else if (x < 96) {
		std::vector<std::string> files = list_dir("/repo/tests/fa_timbuk_armc"); if (files.size() < 2) return p;
		std::string a = files[r.below(files.size())], b = r.chance(1, 4) ? a : files[r.below(files.size())];
		p.steps.push_back(gen::mk(0, "c19_corpus_fa", {long(r.below(1000000)), 7}, a + " || " + b));
	} else {
		std::vector<std::string> files = list_dir("/repo/automata/moderate_artmc_timbuk"); if (files.size() < 2) return p;
		std::string a = files[r.below(files.size())], b = r.chance(1, 3) ? a : files[r.below(files.size())];
		p.steps.push_back(gen::mk(0, "c19_corpus_tree", {long(r.below(1000000)), 1, 2, -1}, a + " || " + b));
	}
	return p;
}

void register_corpus_ops() {
	register_op("c19_twins", op_twins); register_op("c19_laws", op_laws); register_op("c19_corpus_tree", op_corpus_tree); register_op("c19_corpus_fa", op_corpus_fa);
}

} // namespace vsim
