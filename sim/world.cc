#include "world.hh"
#include <cstring>
#include <cstdio>
#include <stdexcept>
#include <unordered_map>

namespace vsim {

std::string g_profile, g_tier;
int g_nclients = 1;
const Plan* g_plan = nullptr;

static std::map<std::string, OpFn>& ops() { static std::map<std::string, OpFn> m; return m; }
static std::vector<void (*)(int, uint64_t)>& abort_hooks() { static std::vector<void (*)(int, uint64_t)> v; return v; }
static std::vector<void (*)()>& final_hooks() { static std::vector<void (*)()> v; return v; }
std::vector<Blob>& blobs() { static std::vector<Blob> b; return b; }

void register_op(const std::string& name, OpFn f) { ops()[name] = f; }
void register_abort_hook(void (*f)(int, uint64_t)) { abort_hooks().push_back(f); }
void register_final_hook(void (*f)()) { final_hooks().push_back(f); }
std::vector<void (*)(const std::string&, const std::string&)>& integrity_hooks() { static std::vector<void (*)(const std::string&, const std::string&)> v; return v; }
void register_integrity_hook(void (*f)(const std::string&, const std::string&)) { integrity_hooks().push_back(f); }

// Outside the API window the harness's own oracle computations run.  They get a
// budget of their own (4*10^6 allocator events, well under a second); running out of it only
// makes the run inconclusive.
void api_end() {
	if (g_shm) g_shm->budget_policy = BUDGET_INCONCLUSIVE;
	simheap::set_step_budget(4000000); simheap::reset_step_ticks();
}

void api_begin() {
	count(c_api_calls);
	if (g_shm) g_shm->budget_policy = BUDGET_HANG;
	simheap::set_step_budget(0); simheap::reset_step_ticks();
	if (g_plan && g_plan->env.stack_noise) { simheap::stack_noise(); count(c_stack_noise_fills); }
}

// world-level ops --------------------------------------------------------------
static void op_abort(const Step& s) {
	int c = int(s.arg(0)) % g_nclients; if (c < 0) c += g_nclients;
	for (auto h : abort_hooks()) h(c, uint64_t(s.arg(1)));
	count(c_client_aborts);
}

// churn: allocate and free blocks of the size classes libvata's own objects
// use, so that the reuse policy actually recycles addresses between steps.
static std::vector<std::pair<void*, size_t>>& churn_pool() { static std::vector<std::pair<void*, size_t>> v; return v; }
static void op_churn(const Step& s) {
	Rng r(uint64_t(s.arg(0)) * 77 + 5);
	int n = int(s.arg(1, 8));
	auto& pool = churn_pool();
	static const size_t sizes[] = {16, 24, 32, 40, 48, 56, 64, 72, 80, 96, 104, 128, 192, 256, 512};
	for (int i = 0; i < n; ++i) {
		if (!pool.empty() && r.chance(1, 2)) {
			size_t k = size_t(r.below(pool.size()));
			::operator delete(pool[k].first); pool[k] = pool.back(); pool.pop_back();
		} else {
			size_t sz = sizes[r.below(sizeof sizes / sizeof sizes[0])];
			pool.push_back(std::make_pair(::operator new(sz), sz));
		}
	}
	count(c_churn_ops);
}
// used only by `vsim selftest known`: a deliberate violation, to exercise the known-findings path
static void op_selftest_violation(const Step& s) { violation(s.lit, "selftest-site", "deliberate violation raised by the driver self-test"); }

static void churn_final() { for (auto& p : churn_pool()) ::operator delete(p.first); churn_pool().clear(); }

void execute_plan(const Plan& plan) {
	g_plan = &plan; g_profile = plan.profile; g_tier = plan.tier; g_nclients = plan.clients > 0 ? plan.clients : 1;
	register_op("abort", op_abort);
	register_op("churn", op_churn);
	register_op("selftest_violation", op_selftest_violation);
	register_expl_ops();
	register_fa_ops();
	register_bdd_ops();
	register_mtbdd_ops();
	register_text_ops();
	register_corpus_ops();
	register_cli_ops();
	register_final_hook(churn_final);
	int last_client = -1;
	for (size_t i = 0; i <= plan.steps.size(); ++i) {
		bool fin = i == plan.steps.size();
		if (g_shm) {
			g_shm->cur_step = int32_t(i);
			const std::string nm = fin ? std::string("<final-checks>") : plan.steps[i].op;
			size_t n = nm.size() < 63 ? nm.size() : 63; memcpy(g_shm->cur_op, nm.data(), n); g_shm->cur_op[n] = 0; g_shm->budget_policy = BUDGET_INCONCLUSIVE;
		}
		simheap::step_begin();
		uint64_t before[5] = {0, 0, 0, 0, 0};
		static const Counter SC[5] = {c_api_calls, c_oracle_evals, c_verdict_true, c_verdict_false, c_exceptions_expected};
		if (g_shm) for (int k = 0; k < 5; ++k) before[k] = g_shm->counters[SC[k]];
		struct Outcome {   // one line per step in the run's sample (written without touching the simulated heap)
			size_t i; const Plan& plan; uint64_t* before; bool skipped = false;
			~Outcome() {
				if (!g_shm || i >= plan.steps.size()) return;
				size_t used = strlen(g_shm->sample); if (used + 200 > sizeof g_shm->sample) return;
				uint64_t d[5]; for (int k = 0; k < 5; ++k) d[k] = g_shm->counters[SC[k]] - before[k];
				snprintf(g_shm->sample + used, sizeof g_shm->sample - used, "step %zu client %d %s%s: api calls %llu, oracle evaluations %llu, verdicts true/false %llu/%llu, expected exceptions %llu; last call site %.60s\n",
					i, plan.steps[i].client, plan.steps[i].op.c_str(), skipped ? " (not applicable here, skipped)" : "",
					(unsigned long long)d[0], (unsigned long long)d[1], (unsigned long long)d[2], (unsigned long long)d[3], (unsigned long long)d[4], g_shm->cur_op);
			}
		} outcome{i, plan, before};
		try {
			if (fin) { for (auto h : final_hooks()) h(); break; }
			const Step& s = plan.steps[i];
			auto it = ops().find(s.op);
			if (it == ops().end()) harness_error("unknown op " + s.op);
			count(c_steps);
			if (s.client != last_client) { if (last_client >= 0) count(c_client_switches); last_client = s.client; }
			it->second(s);
		}
		catch (const Skip&) { count(c_steps_noop); outcome.skipped = true; }
		catch (const std::exception& e) {
			if (g_profile == "C20") { count(c_exceptions_expected); continue; }      // C20 is about memory errors and undefined behaviour: an exception is neither
			violation(g_profile + ".unexpected-exception", fin ? "<final>" : plan.steps[i].op, std::string("std::exception escaped the step: ") + e.what());
		}
		catch (...) {
			if (g_profile == "C20") { count(c_exceptions_expected); continue; }
			violation(g_profile + ".non-std-exception", fin ? "<final>" : plan.steps[i].op, "an exception that is not a std::exception escaped the step");
		}
	}
}

} // namespace vsim
