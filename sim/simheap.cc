// simheap: seeded, deterministic replacement of the global heap.
// This file is compiled WITHOUT sanitizer instrumentation (see Makefile): it
// reads block headers that live in poisoned red zones.
#include "simheap.hh"

#include <sys/mman.h>
#include <unistd.h>
#include <cstdlib>
#include <cstdio>
#include <cstring>
#include <new>

#ifdef VSIM_SAN
extern "C" void __asan_poison_memory_region(void const volatile*, size_t);
extern "C" void __asan_unpoison_memory_region(void const volatile*, size_t);
#define POISON(p, n)   __asan_poison_memory_region((p), (n))
#define UNPOISON(p, n) __asan_unpoison_memory_region((p), (n))
#else
#define POISON(p, n)   ((void)0)
#define UNPOISON(p, n) ((void)0)
#endif

namespace simheap {

static const uintptr_t ARENA_BASE = 0x7e0000000000ull;
static const size_t    ARENA_SIZE = 24ull << 30;
static const uintptr_t META_BASE  = 0x7d0000000000ull;
static const size_t    META_SIZE  = 2ull << 30;

static const uint32_t MAGIC_LIVE  = 0x51eea110u;
static const uint32_t MAGIC_FREED = 0xdeadf4eeu;
static const size_t   HDR = 16;

struct Header { uint32_t magic; uint32_t cls; uint32_t req; uint32_t freed_step; };

struct Pool {
	uintptr_t* a = nullptr;
	uint32_t cap = 0, head = 0, n = 0;
};

static const int NCLS = 96;

static bool      g_mapped = false;
static bool      g_active = false;
static Config    g_cfg;
static Stats     g_st;
static uint64_t  g_fp = 0xcbf29ce484222325ull;
static uint64_t  g_rng = 0, g_nrng = 0;
static uintptr_t g_lo = 0, g_hi = 0;       // bump pointers: [ARENA_BASE, g_lo) and [g_hi, end) are used
static uintptr_t g_meta = 0;
static uintptr_t g_last_placed = 0;
static uint32_t  g_step = 0;
static uint64_t  g_step_ticks = 0;
static uint64_t  g_step_budget = 0;
static void    (*g_budget_handler)() = nullptr;
static Pool      g_fresh[NCLS], g_freed[NCLS];

const char* place_name(int p) { static const char* n[] = {"asc","desc","slab-asc","slab-desc","slab-random"}; return (p >= 0 && p < P_COUNT) ? n[p] : "?"; }
const char* reuse_name(int r) { static const char* n[] = {"lifo","fifo","random","never"}; return (r >= 0 && r < R_COUNT) ? n[r] : "?"; }
const char* noise_name(int x) { static const char* n[] = {"zero","pattern"}; return (x >= 0 && x < N_COUNT) ? n[x] : "?"; }

static inline uint64_t sm64(uint64_t& s) {
	uint64_t z = (s += 0x9e3779b97f4a7c15ull);
	z = (z ^ (z >> 30)) * 0xbf58476d1ce4e5b9ull;
	z = (z ^ (z >> 27)) * 0x94d049bb133111ebull;
	return z ^ (z >> 31);
}

static void die(const char* msg) {
	ssize_t r = write(2, msg, strlen(msg)); (void)r;
	r = write(2, "\n", 1); (void)r;
	abort();
}

void map_arena() {
	if (g_mapped) return;
	void* p = mmap((void*)ARENA_BASE, ARENA_SIZE, PROT_READ | PROT_WRITE,
		MAP_PRIVATE | MAP_ANONYMOUS | MAP_NORESERVE | MAP_FIXED_NOREPLACE, -1, 0);
	if (p != (void*)ARENA_BASE) die("simheap: cannot map arena at fixed address");
	void* m = mmap((void*)META_BASE, META_SIZE, PROT_READ | PROT_WRITE,
		MAP_PRIVATE | MAP_ANONYMOUS | MAP_NORESERVE | MAP_FIXED_NOREPLACE, -1, 0);
	if (m != (void*)META_BASE) die("simheap: cannot map meta region at fixed address");
	g_mapped = true;
}

static void* meta_alloc(size_t n) {
	n = (n + 15) & ~size_t(15);
	if (g_meta + n > META_BASE + META_SIZE) die("simheap: meta region exhausted");
	void* p = (void*)g_meta; g_meta += n; return p;
}

static void pool_grow(Pool& p) {
	uint32_t ncap = p.cap ? p.cap * 2 : 64;
	uintptr_t* na = (uintptr_t*)meta_alloc(sizeof(uintptr_t) * ncap);
	for (uint32_t i = 0; i < p.n; ++i) na[i] = p.a[(p.head + i) % p.cap];
	p.a = na; p.cap = ncap; p.head = 0;
}
static inline void pool_push(Pool& p, uintptr_t v) {
	if (p.n == p.cap) pool_grow(p);
	p.a[(p.head + p.n) % p.cap] = v; ++p.n;
}
static inline uintptr_t pool_pop_back(Pool& p) { --p.n; return p.a[(p.head + p.n) % p.cap]; }
static inline uintptr_t pool_pop_front(Pool& p) { uintptr_t v = p.a[p.head]; p.head = (p.head + 1) % p.cap; --p.n; return v; }
static inline uintptr_t pool_pop_at(Pool& p, uint32_t i) {
	uint32_t pi = (p.head + i) % p.cap, pl = (p.head + p.n - 1) % p.cap;
	uintptr_t v = p.a[pi]; p.a[pi] = p.a[pl]; --p.n; return v;
}

static inline int size_class(size_t sz) {
	if (sz <= 1024) return sz ? int((sz + 15) >> 4) : 1;
	int c = 65; size_t cap = 2048;
	while (cap < sz) { cap <<= 1; ++c; }
	if (c >= NCLS) die("simheap: allocation too large");
	return c;
}
static inline size_t class_payload(int c) { return c <= 64 ? size_t(c) << 4 : size_t(2048) << (c - 65); }

static uintptr_t carve(size_t bytes, bool down) {
	if (g_lo + bytes + 4096 > g_hi) die("simheap: arena exhausted");
	if (down) { g_hi -= bytes; return g_hi; }
	uintptr_t p = g_lo; g_lo += bytes; return p;
}

static void refill(int c) {
	size_t stride = HDR + class_payload(c);
	uint32_t k;
	switch (g_cfg.place) {
		case P_ASC: case P_DESC: k = 1; break;
		default: k = stride <= 1040 ? 32 : (stride <= 16400 ? 4 : 1);
	}
	uintptr_t base = carve(stride * k, g_cfg.place == P_DESC);
	POISON((void*)base, stride * k);
	for (uint32_t i = 0; i < k; ++i) pool_push(g_fresh[c], base + i * stride);
}

static inline uintptr_t take_fresh(int c) {
	Pool& f = g_fresh[c];
	if (f.n == 0) refill(c);
	switch (g_cfg.place) {
		case P_SLAB_DESC:   return pool_pop_back(f);
		case P_SLAB_RANDOM: return pool_pop_at(f, uint32_t(sm64(g_rng) % f.n));
		default:            return pool_pop_front(f);
	}
}

static inline void fill(void* p, size_t n, uint64_t w) {
	uint64_t* q = (uint64_t*)p; size_t words = (n + 7) >> 3;
	for (size_t i = 0; i < words; ++i) q[i] = w;
}

static inline void tick() {
	++g_st.ticks;
	if (++g_step_ticks > g_step_budget && g_budget_handler) {
		void (*h)() = g_budget_handler; g_budget_handler = nullptr; h();
	}
}

static void* sim_alloc(size_t sz) {
	tick();
	++g_st.allocs; g_st.bytes += sz;
	if (++g_st.live > g_st.max_live) g_st.max_live = g_st.live;
	if (g_cfg.passthrough) {
		void* p = malloc(sz ? sz : 1);
		if (!p) die("simheap: malloc failed");
		return p;
	}
	int c = size_class(sz);
	Pool& fr = g_freed[c];
	uintptr_t b = 0; bool reused = false;
	if (fr.n) {
		switch (g_cfg.reuse) {
			case R_LIFO: b = pool_pop_back(fr); reused = true; break;
			case R_FIFO: b = pool_pop_front(fr); reused = true; break;
			case R_RANDOM:
				if (sm64(g_rng) & 1) { b = pool_pop_at(fr, uint32_t(sm64(g_rng) % fr.n)); reused = true; }
				break;
			default: break;
		}
	}
	if (!reused) b = take_fresh(c);
	Header* h = (Header*)b;
	void* payload = (void*)(b + HDR);
	size_t cap = class_payload(c);
	if (reused) {
		++g_st.reused;
		if (h->freed_step == g_step) ++g_st.reused_same_step;
	}
	if (b < g_last_placed) ++g_st.out_of_order;
	g_last_placed = b;
	UNPOISON(payload, cap);
	if (g_cfg.noise == N_PATTERN) fill(payload, cap, sm64(g_nrng) | 0x0101010101010101ull);
	POISON(payload, cap);
	UNPOISON(payload, sz);
	h->magic = MAGIC_LIVE; h->cls = uint32_t(c); h->req = uint32_t(sz); h->freed_step = 0;
	g_fp = (g_fp ^ (b - ARENA_BASE) ^ (uint64_t(c) << 52)) * 0x100000001b3ull;
	return payload;
}

static void sim_free(void* p) {
	uintptr_t b = (uintptr_t)p - HDR;
	Header* h = (Header*)b;
	if (h->magic == MAGIC_FREED) die("simheap: double free of arena block");
	if (h->magic != MAGIC_LIVE) die("simheap: free of a pointer that is not a live arena block");
	int c = int(h->cls);
	size_t cap = class_payload(c);
	UNPOISON(p, cap);
	if (g_cfg.noise == N_PATTERN) fill(p, cap, ~(sm64(g_nrng) | 0x0101010101010101ull));
	POISON(p, cap);
	h->magic = MAGIC_FREED; h->freed_step = g_step;
	if (g_cfg.reuse != R_NEVER) pool_push(g_freed[c], b);
	g_fp = (g_fp ^ ~(b - ARENA_BASE)) * 0x100000001b3ull;
}

bool in_arena(const void* p) { return (uintptr_t)p >= ARENA_BASE && (uintptr_t)p < ARENA_BASE + ARENA_SIZE; }

void begin_run(const Config& cfg) {
	if (!g_mapped && !cfg.passthrough) map_arena();
	g_cfg = cfg; g_st = Stats(); g_fp = 0xcbf29ce484222325ull;
	g_rng = cfg.layout_seed * 0x9e3779b97f4a7c15ull + 0x1234567;
	g_nrng = cfg.noise_seed * 0xd1342543de82ef95ull + 0x7654321;
	g_lo = ARENA_BASE + 4096; g_hi = ARENA_BASE + ARENA_SIZE - 4096;
	g_meta = META_BASE; g_last_placed = 0; g_step = 0; g_step_ticks = 0; g_step_budget = cfg.step_tick_budget;
	for (int i = 0; i < NCLS; ++i) { g_fresh[i] = Pool(); g_freed[i] = Pool(); }
	g_active = true;
}
void end_run() { g_active = false; }
bool active() { return g_active; }
void step_begin() { ++g_step; g_step_ticks = 0; g_step_budget = g_cfg.step_tick_budget; }
void set_step_budget(uint64_t t) { g_step_budget = t ? t : g_cfg.step_tick_budget; }
void reset_step_ticks() { g_step_ticks = 0; }
uint64_t step_ticks() { return g_step_ticks; }
const Stats& stats() { return g_st; }
uint64_t fingerprint() { return g_fp; }
void set_budget_handler(void (*h)()) { g_budget_handler = h; }
uint64_t live_blocks() { return g_st.live; }

__attribute__((noinline)) void stack_noise() {
	if (!g_active || g_cfg.noise != N_PATTERN) return;
	const size_t N = 32768;
	volatile uint64_t buf[N];
	uint64_t w = sm64(g_nrng) | 0x0101010101010101ull;
	for (size_t i = 0; i < N; ++i) buf[i] = w + i * 0x0101010101010101ull;
	asm volatile("" ::: "memory");
}

static inline void* do_new(size_t sz) {
	if (g_active) return sim_alloc(sz);
	void* p = malloc(sz ? sz : 1);
	if (!p) die("simheap: malloc failed");
	return p;
}
static inline void do_delete(void* p) {
	if (!p) return;
	if (in_arena(p)) {
		if (g_active) { tick(); ++g_st.frees; --g_st.live; sim_free(p); }
		return;   // after end_run the arena is simply abandoned
	}
	if (g_active) { tick(); if (g_cfg.passthrough) { ++g_st.frees; --g_st.live; } }
	free(p);
}

} // namespace simheap

void* operator new(size_t sz) { return simheap::do_new(sz); }
void* operator new[](size_t sz) { return simheap::do_new(sz); }
void* operator new(size_t sz, const std::nothrow_t&) noexcept { return simheap::do_new(sz); }
void* operator new[](size_t sz, const std::nothrow_t&) noexcept { return simheap::do_new(sz); }
void operator delete(void* p) noexcept { simheap::do_delete(p); }
void operator delete[](void* p) noexcept { simheap::do_delete(p); }
void operator delete(void* p, size_t) noexcept { simheap::do_delete(p); }
void operator delete[](void* p, size_t) noexcept { simheap::do_delete(p); }
void operator delete(void* p, const std::nothrow_t&) noexcept { simheap::do_delete(p); }
void operator delete[](void* p, const std::nothrow_t&) noexcept { simheap::do_delete(p); }
