// vsim driver: seeded search over simulated runs, gate, minimise, replay, statistics.
// The driver process is a pristine zygote: it never executes libvata code
// itself; every run happens in a forked child (DESIGN.md 2.3).
#include "core.hh"
#include "selftest.hh"

#include <sys/personality.h>
#include <sys/mman.h>
#include <sys/wait.h>
#include <sys/stat.h>
#include <unistd.h>
#include <fcntl.h>
#include <signal.h>
#include <time.h>
#include <fstream>
#include <sstream>
#include <algorithm>
#include <unordered_set>
#include <iostream>

using namespace vsim;
namespace vsim { size_t c13_corpus_items(); }

#ifdef VSIM_SAN
extern "C" __attribute__((used)) const char* __asan_default_options() {
	return "exitcode=77:detect_leaks=0:abort_on_error=0:detect_stack_use_after_return=0:allocator_may_return_null=1:handle_segv=0:handle_abort=0:print_summary=1";
}
extern "C" __attribute__((used)) const char* __ubsan_default_options() { return "halt_on_error=1:exitcode=77:print_stacktrace=0"; }
static const char* FLAVOR = "san";
#else
#ifdef VSIM_DBG
static const char* FLAVOR = "dbg";
#else
static const char* FLAVOR = "plain";
#endif
#endif

// printable form of a violation detail: newlines kept, every other non-printable or non-ASCII byte escaped
static std::string printable(const std::string& s) {
	std::string r; for (unsigned char c : s) { if (c == '\n' || (c >= 32 && c < 127)) r += char(c); else { char b[8]; snprintf(b, sizeof b, "\\x%02x", c); r += b; } } return r;
}

static double now_s() { timespec t; clock_gettime(CLOCK_MONOTONIC, &t); return double(t.tv_sec) + double(t.tv_nsec) * 1e-9; }

static std::string jstr(const std::string& s) {
	std::string r = "\"";
	for (unsigned char c : s) {
		if (c == '"') r += "\\\""; else if (c == '\\') r += "\\\\"; else if (c == '\n') r += "\\n"; else if (c == '\t') r += "\\t"; else if (c == '\r') r += "\\r";
		else if (c < 32 || c >= 127) { char b[8]; snprintf(b, sizeof b, "\\u%04x", c); r += b; } else r += char(c);
	}
	return r + "\"";
}

struct Viol { uint64_t idx = 0, seed = 0; std::string oracle, site, detail, plan_text; long step = -1; uint64_t fingerprint = 0; bool timed_out = false; };

struct Agg {
	uint64_t runs = 0, ok = 0, viol = 0, harness = 0, noise_pairs = 0, ticks = 0, steps = 0;
	uint64_t prefix = ~0ull;      // every run index below this was executed (minimum over the workers)
	std::vector<uint64_t> counters = std::vector<uint64_t>(C_COUNT, 0);
	std::unordered_set<uint64_t> cases, fps;
	std::vector<std::string> samples; uint64_t sample_evals = 0;
	std::map<std::string, uint64_t> env_hist;
	std::set<std::string> known;
	std::vector<Viol> viols;
	std::string harness_msg;
};

static void agg_add(Agg& a, const RunResult& r) {
	++a.runs; a.ticks += r.ticks;
	if (r.status == 1) ++a.ok; else if (r.status == 2) ++a.viol; else ++a.harness;
	for (size_t i = 0; i < C_COUNT && i < r.counters.size(); ++i) a.counters[i] += r.counters[i];
	for (uint64_t h : r.case_hashes) a.cases.insert(h);
	a.fps.insert(r.fingerprint);
	for (const std::string& k : r.known_lines) a.known.insert(k);
	// the sample of a worker: among its first 300 runs, the one that held with the most oracle evaluations
	if (r.status == 1 && !r.sample.empty() && a.runs <= 300 && r.counters[c_oracle_evals] > a.sample_evals) {
		a.sample_evals = r.counters[c_oracle_evals];
		a.samples.assign(1, "a run that held (its trace, then what each step did):\n" + r.plan_text.substr(0, 2600) + (r.plan_text.size() > 2600 ? "...\n" : "") + r.sample);
	}
}

static void agg_write(const Agg& a, const std::string& path) {
	std::ofstream o(path);
	o << "runs " << a.runs << " " << a.ok << " " << a.viol << " " << a.harness << " " << a.noise_pairs << " " << a.ticks << "\n";
	o << "prefix " << a.prefix << "\n";
	o << "counters"; for (uint64_t c : a.counters) o << " " << c; o << "\n";
	o << "cases " << a.cases.size(); for (uint64_t c : a.cases) o << " " << c; o << "\n";
	o << "fps " << a.fps.size(); for (uint64_t c : a.fps) o << " " << c; o << "\n";
	for (auto& s : a.samples) o << "sample " << escape(s) << "\n";
	for (auto& kv : a.env_hist) o << "env " << kv.second << " " << kv.first << "\n";
	for (auto& k : a.known) o << "known " << escape(k) << "\n";
	if (!a.harness_msg.empty()) o << "harness " << escape(a.harness_msg) << "\n";
	for (auto& v : a.viols) {
		o << "viol " << v.idx << " " << v.seed << " " << v.step << " " << v.fingerprint << " " << (v.timed_out ? 1 : 0) << "\n";
		o << "v_oracle " << v.oracle << "\n" << "v_site " << escape(v.site) << "\n" << "v_detail " << escape(v.detail) << "\n" << "v_plan " << escape(v.plan_text) << "\n";
	}
}

static void agg_merge_file(Agg& a, const std::string& path) {
	std::ifstream in(path); std::string line;
	while (std::getline(in, line)) {
		std::istringstream is(line); std::string k; is >> k;
		if (k == "runs") { uint64_t x[6]; for (auto& v : x) is >> v; a.runs += x[0]; a.ok += x[1]; a.viol += x[2]; a.harness += x[3]; a.noise_pairs += x[4]; a.ticks += x[5]; }
		else if (k == "prefix") { uint64_t v; is >> v; if (v < a.prefix) a.prefix = v; }
		else if (k == "counters") { for (size_t i = 0; i < C_COUNT; ++i) { uint64_t v = 0; is >> v; a.counters[i] += v; } }
		else if (k == "cases") { size_t n; is >> n; for (size_t i = 0; i < n; ++i) { uint64_t v; is >> v; a.cases.insert(v); } }
		else if (k == "fps") { size_t n; is >> n; for (size_t i = 0; i < n; ++i) { uint64_t v; is >> v; a.fps.insert(v); } }
		else if (k == "sample") { if (a.samples.size() < 2) a.samples.push_back(unescape(line.substr(7))); }
		else if (k == "env") { uint64_t n; is >> n; std::string rest; std::getline(is, rest); a.env_hist[rest.substr(rest.find_first_not_of(' '))] += n; }
		else if (k == "known") a.known.insert(unescape(line.substr(6)));
		else if (k == "harness") a.harness_msg = unescape(line.substr(8));
		else if (k == "viol") { Viol v; int to = 0; is >> v.idx >> v.seed >> v.step >> v.fingerprint >> to; v.timed_out = to != 0; a.viols.push_back(v); }
		else if (k == "v_oracle") a.viols.back().oracle = line.substr(9);
		else if (k == "v_site") a.viols.back().site = unescape(line.substr(7));
		else if (k == "v_detail") a.viols.back().detail = unescape(line.substr(9));
		else if (k == "v_plan") a.viols.back().plan_text = unescape(line.substr(7));
	}
}

struct Opts {
	std::string cmd, profile = "C01", tier = "quick", out, known = "known_findings.txt", replay_dir = "replays", file;
	uint64_t seed = 1; double secs = 10; int workers = 8; uint64_t max_runs = ~0ull; int wall = 30; int noise_every = 20; bool print_plan = false; bool no_shrink = false;
	uint64_t one_seed = 0; int passthrough = 0;
};

static std::string env_key(const Env& e) {
	return std::string(simheap::place_name(e.place)) + "/" + simheap::reuse_name(e.reuse) + "/" + simheap::noise_name(e.noise) + (e.stack_noise ? "+stack" : "");
}

// ---------------------------------------------------------------- worker
static uint64_t* g_next_index = nullptr;

static void worker(const Opts& o, int w, const std::string& aggpath, double deadline) {
	Agg a; a.prefix = ~0ull; (void)w;
	// run indices are handed out dynamically (shared counter): every index below the final counter value is executed
	while (now_s() < deadline) {
		uint64_t idx = __atomic_fetch_add(g_next_index, 1, __ATOMIC_RELAXED);
		if (idx >= o.max_runs) break;
		uint64_t seed = mix64(o.seed, idx);
		g_run_index = idx;
		RunResult r = run_in_child(nullptr, o.profile, o.tier, seed, o.wall);
		agg_add(a, r);
		Plan pl; bool have_plan = plan_from_text(r.plan_text, pl);
		if (have_plan) a.env_hist[env_key(pl.env)] += 1;
		if (r.status == 3) { a.harness_msg = r.detail + " (seed " + std::to_string(seed) + ")"; break; }
		if (r.status == 2 && r.timed_out) {
			// The wall-clock backstop is not deterministic (machine load): on its own it is only
			// 'inconclusive'.  It becomes a reported hang only if the same plan runs into the backstop
			// again with three times the limit; otherwise the run is counted and dropped.
			Plan tp; bool again = false;
			if (plan_from_text(r.plan_text, tp)) { RunResult r3 = run_in_child(&tp, o.profile, o.tier, seed, o.wall * 3); again = r3.status == 2 && r3.timed_out; if (again) r = r3; }
			if (!again) { --a.viol; ++a.ok; a.counters[c_budget_inconclusive] += 1; continue; }
		}
		if (r.status == 2) {
			Viol v; v.idx = idx; v.seed = seed; v.oracle = r.oracle; v.site = r.site; v.detail = r.detail; v.plan_text = r.plan_text; v.step = r.step; v.fingerprint = r.fingerprint; v.timed_out = r.timed_out;
			a.viols.push_back(v);
			if (a.viols.size() >= 2) break;
			continue;
		}
		// noise differential: same layout seed, another noise seed => byte-identical observables
		if (o.noise_every > 0 && have_plan && pl.env.noise == simheap::N_PATTERN && idx % uint64_t(o.noise_every) == 0) {
			Env e2 = pl.env; e2.noise_seed = pl.env.noise_seed * 31 + 7;
			RunResult r2 = run_in_child(&pl, o.profile, o.tier, seed, o.wall, &e2);
			++a.noise_pairs; a.counters[c_noise_diff_pairs] += 1;
			if (r2.status == 1 && (r2.obs_digest != r.obs_digest || r2.fingerprint != r.fingerprint)) {
				Viol v; v.idx = idx; v.seed = seed; v.oracle = o.profile + ".noise-differential"; v.site = "run";
				v.detail = "same layout seed, different memory noise: observable digest " + std::to_string(r.obs_digest) + " vs " + std::to_string(r2.obs_digest) + ", allocation fingerprint " + std::to_string(r.fingerprint) + " vs " + std::to_string(r2.fingerprint) + " => the run read indeterminate memory";
				v.plan_text = r.plan_text; v.fingerprint = r.fingerprint; a.viols.push_back(v); ++a.viol;
				if (a.viols.size() >= 2) break;
			} else if (r2.status == 2) {
				Viol v; v.idx = idx; v.seed = seed; v.oracle = r2.oracle; v.site = r2.site; v.detail = r2.detail + "\n(found in the second run of a noise-differential pair)"; v.plan_text = r2.plan_text; v.step = r2.step; v.fingerprint = r2.fingerprint;
				a.viols.push_back(v); ++a.viol; if (a.viols.size() >= 2) break;
			}
		}
	}
	agg_write(a, aggpath);
}

// ---------------------------------------------------------------- gate / minimise / replay
static bool same_class(const RunResult& r, const std::string& oracle, const std::string& site) {
	if (r.status == 2 && r.timed_out) return r.oracle == oracle;      // where the wall clock strikes varies
	return r.status == 2 && r.oracle == oracle && r.site == site;
}

static RunResult exec_plan(const Plan& p, int wall) { return run_in_child(&p, p.profile, p.tier, p.seed, wall); }

// noise-differential violations are a property of a PAIR of runs
static bool reproduces(const Plan& p, const std::string& oracle, const std::string& site, int wall, RunResult* out = nullptr) {
	if (oracle.size() > 19 && oracle.compare(oracle.size() - 19, 19, ".noise-differential") == 0) {
		RunResult r1 = exec_plan(p, wall); if (r1.status != 1) return false;
		Plan q = p; q.env.noise_seed = p.env.noise_seed * 31 + 7;
		RunResult r2 = exec_plan(q, wall); if (r2.status != 1) return false;
		if (out) { *out = r1; out->status = 2; out->oracle = oracle; out->site = site; }
		return r1.obs_digest != r2.obs_digest || r1.fingerprint != r2.fingerprint;
	}
	RunResult r = exec_plan(p, wall); if (out) *out = r;
	return same_class(r, oracle, site);
}

static std::vector<std::string> split_lit(const std::string& lit) {
	std::vector<std::string> parts; size_t p = 0;
	while (true) { size_t q = lit.find(" ; ", p); parts.push_back(lit.substr(p, q == std::string::npos ? q : q - p)); if (q == std::string::npos) break; p = q + 3; }
	return parts;
}
static std::string join_lit(const std::vector<std::string>& parts) { std::string s; for (size_t i = 0; i < parts.size(); ++i) s += (i ? " ; " : "") + parts[i]; return s; }

static Plan minimise(Plan p, const std::string& oracle, const std::string& site, int wall, int& reruns, double budget_s) {
	double t0 = now_s(); auto out_of_budget = [&]() { return now_s() - t0 > budget_s || reruns > 600; };
	// 1. drop steps (ddmin-style, chunk sizes n/2 .. 1)
	for (size_t chunk = std::max<size_t>(1, p.steps.size() / 2); chunk >= 1; chunk /= 2) {
		bool progress = true;
		while (progress && !out_of_budget()) {
			progress = false;
			for (size_t at = 0; at < p.steps.size() && !out_of_budget();) {
				Plan q = p; size_t n = std::min(chunk, q.steps.size() - at);
				q.steps.erase(q.steps.begin() + long(at), q.steps.begin() + long(at + n));
				++reruns;
				if (reproduces(q, oracle, site, wall)) { p = q; progress = true; } else at += n;
			}
		}
		if (chunk == 1) break;
	}
	// 2. simplest environment
	{
		Plan q = p; q.env.place = simheap::P_ASC; q.env.reuse = simheap::R_NEVER; q.env.noise = simheap::N_ZERO; q.env.stack_noise = 0; ++reruns;
		if (!out_of_budget() && reproduces(q, oracle, site, wall)) p = q;
		else {
			Plan a = p; a.env.place = simheap::P_ASC; ++reruns; if (!out_of_budget() && reproduces(a, oracle, site, wall)) p = a;
			Plan b = p; b.env.noise = simheap::N_ZERO; b.env.stack_noise = 0; ++reruns; if (!out_of_budget() && reproduces(b, oracle, site, wall)) p = b;
			Plan c = p; c.env.reuse = simheap::R_NEVER; ++reruns; if (!out_of_budget() && reproduces(c, oracle, site, wall)) p = c;
		}
	}
	// 3. one client
	if (p.clients > 1 && !out_of_budget()) {
		Plan q = p; q.clients = 1; for (auto& s : q.steps) s.client = 0; ++reruns;
		if (reproduces(q, oracle, site, wall)) p = q;
	}
	// 4. shrink literals: drop rules / final states one by one
	for (size_t i = 0; i < p.steps.size() && !out_of_budget(); ++i) {
		if (p.steps[i].lit.find(" ; ") == std::string::npos) continue;
		std::vector<std::string> parts = split_lit(p.steps[i].lit);
		for (size_t k = parts.size(); k-- > 1 && !out_of_budget();) {
			std::vector<std::string> q = parts; q.erase(q.begin() + long(k));
			Plan cand = p; cand.steps[i].lit = join_lit(q); ++reruns;
			if (reproduces(cand, oracle, site, wall)) { p = cand; parts = q; }
		}
	}
	// 5. once more: drop single steps
	for (size_t at = 0; at < p.steps.size() && !out_of_budget();) {
		Plan q = p; q.steps.erase(q.steps.begin() + long(at)); ++reruns;
		if (reproduces(q, oracle, site, wall)) p = q; else ++at;
	}
	return p;
}

static int replay_file(const std::string& path, int wall, bool quiet) {
	std::ifstream in(path); if (!in) { fprintf(stderr, "cannot read %s\n", path.c_str()); return 2; }
	std::string text((std::istreambuf_iterator<char>(in)), std::istreambuf_iterator<char>());
	Plan p; std::string err; if (!plan_from_text(text, p, &err)) { fprintf(stderr, "bad replay file: %s\n", err.c_str()); return 2; }
	RunResult r;
	bool rep = p.expect_oracle.empty() ? false : reproduces(p, p.expect_oracle, p.expect_site, wall, &r);
	if (p.expect_oracle.empty()) r = exec_plan(p, wall);
	if (!quiet) {
		printf("replay %s: status=%d oracle=%s site=%s step=%ld fingerprint=%016llx\n", path.c_str(), r.status, r.oracle.c_str(), r.site.c_str(), r.step, (unsigned long long)r.fingerprint);
		if (r.status == 2) printf("%s\n", printable(r.detail).c_str());
	}
	if (!p.expect_oracle.empty()) {
		if (rep) { if (!quiet) printf("REPRODUCED expected violation %s at %s\n", p.expect_oracle.c_str(), p.expect_site.c_str()); return 1; }
		if (!quiet) printf("NOT REPRODUCED (expected %s at %s)\n", p.expect_oracle.c_str(), p.expect_site.c_str());
		return r.status == 2 ? 1 : 0;
	}
	return r.status == 2 ? 1 : 0;
}

static int fresh_process_replay(const std::string& path) {
	pid_t pid = fork();
	if (pid == 0) {
		int fd = open("/dev/null", O_WRONLY); if (fd >= 0) { dup2(fd, 1); close(fd); }
		execl("/proc/self/exe", "vsim", "replay", path.c_str(), "--quiet", (char*)nullptr); _exit(2);
	}
	int st = 0; waitpid(pid, &st, 0);
	return WIFEXITED(st) ? WEXITSTATUS(st) : 2;
}

// ---------------------------------------------------------------- run command
static int cmd_run(const Opts& o) {
	double t0 = now_s(); double deadline = t0 + o.secs;
	std::string tmp = std::string(getenv("VSIM_TMP") ? getenv("VSIM_TMP") : "build/tmp");
	mkdir(tmp.c_str(), 0777);
	std::string runid = tmp + "/run-" + std::to_string(getpid());
	std::vector<pid_t> pids;
	g_next_index = (uint64_t*)mmap(nullptr, 4096, PROT_READ | PROT_WRITE, MAP_SHARED | MAP_ANONYMOUS, -1, 0);
	*g_next_index = 0;
	for (int w = 0; w < o.workers; ++w) {
		pid_t pid = fork();
		if (pid == 0) { worker(o, w, runid + "-w" + std::to_string(w) + ".agg", deadline); _exit(0); }
		pids.push_back(pid);
	}
	bool worker_died = false;
	for (pid_t p : pids) {
		int st = 0; waitpid(p, &st, 0); if (!WIFEXITED(st) || WEXITSTATUS(st) != 0) worker_died = true;
		// scratch directory of the worker's command-line steps
		for (const char* base : {"/dev/shm", tmp.c_str()}) { char pb[16]; snprintf(pb, sizeof pb, "%010d", int(p)); std::string d = std::string(base) + "/vsim-cli-" + pb; for (const char* f : {"/a.timbuk", "/b.timbuk", "/stdout.txt"}) unlink((d + f).c_str()); rmdir(d.c_str()); }
	}
	Agg a;
	for (int w = 0; w < o.workers; ++w) { std::string f = runid + "-w" + std::to_string(w) + ".agg"; agg_merge_file(a, f); unlink(f.c_str()); }
	double search_s = now_s() - t0;
	a.prefix = *g_next_index < o.max_runs ? *g_next_index : o.max_runs;

	int exit_code = 0; std::vector<std::string> violation_lines; std::vector<std::string> replay_files; int reruns_total = 0;
	if (worker_died || a.harness) { fprintf(stderr, "HARNESS-ERROR: %s\n", a.harness_msg.empty() ? "a worker process died" : a.harness_msg.c_str()); exit_code = 2; }
	std::sort(a.viols.begin(), a.viols.end(), [](const Viol& x, const Viol& y) { return x.idx < y.idx; });
	std::set<std::string> done_classes;
	std::ostringstream vjson;
	for (const Viol& v : a.viols) {
		std::string cls = v.oracle + "|" + v.site;
		if (done_classes.count(cls) || done_classes.size() >= 3) continue;
		done_classes.insert(cls);
		Plan p; std::string err;
		if (!plan_from_text(v.plan_text, p, &err)) { fprintf(stderr, "HARNESS-ERROR: cannot parse plan of failing seed %llu: %s\n", (unsigned long long)v.seed, err.c_str()); exit_code = 2; continue; }
		int wall = v.timed_out ? o.wall * 3 : o.wall;
		// gate: the failing seed must fail the same way twice more, with identical allocation fingerprints
		RunResult g1, g2; bool ok1 = reproduces(p, v.oracle, v.site, wall, &g1), ok2 = reproduces(p, v.oracle, v.site, wall, &g2);
		if (v.timed_out && (!ok1 || !ok2)) { a.counters[c_budget_inconclusive] += 1; continue; }      // a wall-clock timeout that does not repeat is inconclusive, never a violation or a harness fault
		if (!ok1 || !ok2 || (!v.timed_out && g1.fingerprint != g2.fingerprint)) {
			fprintf(stderr, "HARNESS-NONDETERMINISM: seed %llu (%s at %s) did not reproduce identically (%d %d, fp %llx %llx); not reported as a violation\n",
				(unsigned long long)v.seed, v.oracle.c_str(), v.site.c_str(), int(ok1), int(ok2), (unsigned long long)g1.fingerprint, (unsigned long long)g2.fingerprint);
			exit_code = 2; continue;
		}
		int reruns = 0; Plan m = o.no_shrink ? p : minimise(p, v.oracle, v.site, wall, reruns, o.tier == "quick" ? 25.0 : 90.0);
		reruns_total += reruns;
		RunResult fin; reproduces(m, v.oracle, v.site, wall, &fin);
		m.expect_oracle = v.oracle; m.expect_site = v.site; m.expect_step = fin.step; m.expect_detail = fin.detail.substr(0, 1500);
		char fpb[32]; snprintf(fpb, sizeof fpb, "%016llx", (unsigned long long)fin.fingerprint); m.fingerprint = fpb;
		mkdir(o.replay_dir.c_str(), 0777);
		std::string path = o.replay_dir + "/" + o.profile + "-" + FLAVOR + "-" + std::to_string(v.seed) + ".trace";
		{ std::ofstream f(path); f << "# replay: build/" << FLAVOR << "/vsim replay " << path << "\n" << "# original plan had " << p.steps.size() << " steps, minimised to " << m.steps.size() << " in " << reruns << " re-runs\n" << plan_to_text(m); }
		int fr = fresh_process_replay(path);
		if (fr != 1) { fprintf(stderr, "HARNESS-NONDETERMINISM: minimised trace %s did not reproduce in a fresh process (exit %d)\n", path.c_str(), fr); exit_code = 2; continue; }
		std::string prop = o.profile;
		printf("VIOLATION property=%s replay=%s\n", prop.c_str(), path.c_str());
		printf("  oracle=%s site=%s seed=%llu flavour=%s steps=%zu (from %zu)\n  %s\n", v.oracle.c_str(), v.site.c_str(), (unsigned long long)v.seed, FLAVOR, m.steps.size(), p.steps.size(), printable(fin.detail.substr(0, 1200)).c_str());
		if (exit_code == 0) exit_code = 1;
		if (vjson.tellp() > 0) vjson << ",";
		vjson << "{\"oracle\":" << jstr(v.oracle) << ",\"site\":" << jstr(v.site) << ",\"seed\":" << v.seed << ",\"replay\":" << jstr(path) << ",\"steps\":" << m.steps.size() << ",\"detail\":" << jstr(fin.detail.substr(0, 600)) << "}";
	}
	for (const std::string& k : a.known) printf("KNOWN-FINDING:%s\n", k.c_str());

	if (!o.out.empty()) {
		double wall = now_s() - t0;
		std::ofstream f(o.out);
		f << "{\n \"profile\": " << jstr(o.profile) << ", \"flavour\": " << jstr(FLAVOR) << ", \"tier\": " << jstr(o.tier) << ", \"seed\": " << o.seed << ",\n";
		f << " \"runs\": " << a.runs << ", \"runs_ok\": " << a.ok << ", \"runs_violating\": " << a.viol << ", \"harness_errors\": " << a.harness << ",\n";
		f << " \"search_s\": " << search_s << ", \"wall_s\": " << wall << ", \"workers\": " << o.workers << ", \"runs_per_hour\": " << (search_s > 0 ? uint64_t(double(a.runs) / search_s * 3600.0) : 0) << ",\n";
		f << " \"logical_ticks\": " << a.ticks << ", \"distinct_fingerprints\": " << a.fps.size() << ", \"distinct_nontrivial_cases\": " << a.cases.size() << ", \"noise_differential_pairs\": " << a.noise_pairs << ",\n";
		f << " \"contiguous_run_prefix\": " << (a.prefix == ~0ull ? 0 : a.prefix) << ", \"systematic_items\": " << (o.profile == "C13" ? c13_corpus_items() : 0) << ",\n";
		f << " \"minimisation_reruns\": " << reruns_total << ", \"exit_code\": " << exit_code << ",\n";
		f << " \"counters\": {"; for (size_t i = 0; i < C_COUNT; ++i) f << (i ? ", " : "") << "\"" << counter_names[i] << "\": " << a.counters[i]; f << "},\n";
		f << " \"environments\": {"; { bool first = true; for (auto& kv : a.env_hist) { f << (first ? "" : ", ") << jstr(kv.first) << ": " << kv.second; first = false; } } f << "},\n";
		f << " \"known_findings_hit\": ["; { bool first = true; for (auto& k : a.known) { f << (first ? "" : ", ") << jstr(k); first = false; } } f << "],\n";
		f << " \"samples\": ["; for (size_t i = 0; i < a.samples.size(); ++i) f << (i ? ", " : "") << jstr(a.samples[i]); f << "],\n";
		f << " \"violations\": [" << vjson.str() << "]\n}\n";
	}
	return exit_code;
}

static int cmd_one(const Opts& o) {
	RunResult r = run_in_child(nullptr, o.profile, o.tier, o.one_seed, o.wall);
	if (o.print_plan) printf("%s", r.plan_text.c_str());
	printf("status=%d oracle=%s site=%s step=%ld op=%s fingerprint=%016llx digest=%016llx ticks=%llu\n", r.status, r.oracle.c_str(), r.site.c_str(), r.step, r.op.c_str(),
		(unsigned long long)r.fingerprint, (unsigned long long)r.obs_digest, (unsigned long long)r.ticks);
	if (r.status != 1) printf("%s\n", r.detail.c_str());
	for (size_t i = 0; i < C_COUNT; ++i) if (r.counters[i]) printf("  %s=%llu\n", counter_names[i], (unsigned long long)r.counters[i]);
	return r.status == 1 ? 0 : 1;
}

static void cleanup_own_cli_dir() {
	char pb[16]; snprintf(pb, sizeof pb, "%010d", int(getpid()));
	const char* t = getenv("VSIM_TMP"); std::string tmp = t ? t : "build/tmp";
	for (const std::string& base : {std::string("/dev/shm"), tmp}) { std::string d = base + "/vsim-cli-" + pb; for (const char* f : {"/a.timbuk", "/b.timbuk", "/stdout.txt"}) unlink((d + f).c_str()); rmdir(d.c_str()); }
}

int main(int argc, char** argv) {
	// fixed addresses for stack, libraries and text: re-exec once without ASLR
	if (!getenv("VSIM_NO_REEXEC")) {
		int pers = personality(0xffffffff);
		if (pers != -1 && !(pers & ADDR_NO_RANDOMIZE)) {
			if (personality(pers | ADDR_NO_RANDOMIZE) != -1) { setenv("VSIM_NO_REEXEC", "1", 1); execv("/proc/self/exe", argv); }
		}
	}
	Opts o; if (argc < 2) { fprintf(stderr, "usage: vsim run|one|replay|selftest ...\n"); return 2; }
	o.cmd = argv[1];
	if (const char* s = getenv("VERIF_SEED")) o.seed = strtoull(s, nullptr, 10);
	for (int i = 2; i < argc; ++i) {
		std::string a = argv[i]; auto nxt = [&]() { return i + 1 < argc ? std::string(argv[++i]) : std::string(); };
		if (a == "--profile") o.profile = nxt(); else if (a == "--tier") o.tier = nxt(); else if (a == "--seed") o.seed = strtoull(nxt().c_str(), nullptr, 10);
		else if (a == "--secs") o.secs = atof(nxt().c_str()); else if (a == "--workers") o.workers = atoi(nxt().c_str()); else if (a == "--max-runs") o.max_runs = strtoull(nxt().c_str(), nullptr, 10);
		else if (a == "--out") o.out = nxt(); else if (a == "--known") o.known = nxt(); else if (a == "--replay-dir") o.replay_dir = nxt(); else if (a == "--wall") o.wall = atoi(nxt().c_str());
		else if (a == "--noise-every") o.noise_every = atoi(nxt().c_str()); else if (a == "--print-plan") o.print_plan = true; else if (a == "--no-shrink") o.no_shrink = true;
		else if (a == "--run-seed") o.one_seed = strtoull(nxt().c_str(), nullptr, 10); else if (a == "--run-index") g_run_index = strtoull(nxt().c_str(), nullptr, 10); else if (a == "--quiet") o.print_plan = false, o.no_shrink = true;
		else if (a[0] != '-') o.file = a;
	}
	if (!getenv("VSIM_PASSTHROUGH")) simheap::map_arena();
	load_known_findings(o.known);
	signal(SIGPIPE, SIG_IGN);
	atexit(cleanup_own_cli_dir);
	if (o.cmd == "run") return cmd_run(o);
	if (o.cmd == "one") return cmd_one(o);
	if (o.cmd == "replay") { bool quiet = false; for (int i = 2; i < argc; ++i) if (std::string(argv[i]) == "--quiet") quiet = true; return replay_file(o.file, o.wall, quiet); }
	if (o.cmd == "selftest") return selftest_main(o.file, o.seed, o.workers);
	fprintf(stderr, "unknown command %s\n", o.cmd.c_str()); return 2;
}
