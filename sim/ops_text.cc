// The stored-text path (C13): Timbuk serialiser / parser / loaders of all four
// encodings behind the simulated file store, fault-free (strict round trip)
// and under storage faults (succeed-or-std::exception, fix-point on success).
#include "world.hh"
#include "profiles.hh"

#include <vata/vata.hh>
#include <vata/explicit_tree_aut.hh>
#include <vata/explicit_finite_aut.hh>
#include <vata/bdd_bu_tree_aut.hh>
#include <vata/bdd_td_tree_aut.hh>
#include <vata/parsing/timbuk_parser.hh>
#include <vata/serialization/timbuk_serializer.hh>
#include <vata/util/util.hh>

#include <dirent.h>
#include <unistd.h>
#include <sys/stat.h>
#include <algorithm>
#include <fstream>

using namespace vsim;
using mdl::Desc;
typedef VATA::AutBase::StateDict StateDict;


namespace {

// C13's oracles judge in C13 runs only (a C20 run makes the same calls under the monitors alone)
void c13_violation(const std::string& o, const std::string& si, const std::string& d) { if (armed("C13")) vsim::violation(o, si, d); }


const char* const ENC[] = {"parse", "expl", "expl_fa", "bdd-bu", "bdd-td"};

Desc from_lib(const VATA::Util::AutDescription& a) {
	Desc d; d.name = a.name; d.states = a.states; d.finals = a.finalStates;
	for (auto& s : a.symbols) d.ops.insert(mdl::Sym(s.first, s.second));
	for (auto& t : a.transitions) d.trans.insert(std::make_tuple(t.second, t.first, t.third));
	return d;
}

std::string desc_diff(const Desc& e, const Desc& g) {
	std::string o; int n = 0;
	for (auto& t : e.trans) if (!g.trans.count(t) && n++ < 4) o += " missing[" + std::get<0>(t) + "/" + std::to_string(std::get<1>(t).size()) + "->" + std::get<2>(t) + "]";
	for (auto& t : g.trans) if (!e.trans.count(t) && n++ < 4) o += " extra[" + std::get<0>(t) + "/" + std::to_string(std::get<1>(t).size()) + "->" + std::get<2>(t) + "]";
	for (auto& f : e.finals) if (!g.finals.count(f) && n++ < 8) o += " missing-final[" + f + "]";
	for (auto& f : g.finals) if (!e.finals.count(f) && n++ < 8) o += " extra-final[" + f + "]";
	return o;
}

bool fa_shaped(const Desc& d) { for (auto& t : d.trans) if (std::get<1>(t).size() > 1) return false; return true; }

// load `text` into encoding enc with a state dictionary and dump it again with that dictionary
// returns false if the library rejected the text with a std::exception (what() in *err)
// The classes offer several name-preserving overloads (text or parsed description; dictionary or translator
// over a dictionary; dump to text or to a description).  Which pair is used is drawn from the text itself, so
// a replay takes the same one.
// (some of the declared overloads have no definition in the library: LoadFromAutDesc with a translator for the tree
// encodings, LoadFromAutDesc with a dictionary for bdd-td; they cannot be called at all)
template <class A> struct Caps { static const bool desc_dict = true, desc_transl = false; };
template <> struct Caps<VATA::ExplicitFiniteAut> { static const bool desc_dict = true, desc_transl = true; };
template <> struct Caps<VATA::BDDTopDownTreeAut> { static const bool desc_dict = false, desc_transl = false; };
template <class A> void load_by(A& a, int how, VATA::Parsing::TimbukParser& parser, const std::string& text, StateDict& dict) {
	typedef VATA::AutBase::StateType ST;
	if (how == 1) { if constexpr (Caps<A>::desc_dict) { VATA::Util::AutDescription d = parser.ParseString(text); a.LoadFromAutDesc(d, dict); return; } }
	ST cnt = 0; VATA::AutBase::StringToStateTranslWeak tr(dict, [&cnt](const std::string&) { return cnt++; });
	if (how == 2) { a.LoadFromString(parser, text, tr); return; }
	if (how == 3) { if constexpr (Caps<A>::desc_transl) { VATA::Util::AutDescription d = parser.ParseString(text); a.LoadFromAutDesc(d, tr); return; } }
	a.LoadFromString(parser, text, dict);
}
bool load_dump(int enc, const std::string& text, std::string& dumped, std::string* err) {
	VATA::Parsing::TimbukParser parser; VATA::Serialization::TimbukSerializer ser; StateDict dict;
	uint64_t h = hash_str(text); int how = int(h % 4), out = int((h / 4) % 3);
	try {
		switch (enc) {
			case 0: { VATA::Util::AutDescription a = parser.ParseString(text); dumped = ser.Serialize(a); break; }
			case 1: {
				VATA::ExplicitTreeAut a; VATA::ExplicitTreeAut::AlphabetType al(new VATA::ExplicitTreeAut::OnTheFlyAlphabet()); a.SetAlphabet(al); load_by(a, how, parser, text, dict);
				if (out == 0) dumped = a.DumpToString(ser, dict);
				else if (out == 1) { VATA::AutBase::StateBackTranslStrict bt(dict.GetReverseMap()); dumped = a.DumpToString(ser, bt); }
				else { VATA::Util::AutDescription d = a.DumpToAutDesc(dict); dumped = ser.Serialize(d); }
				break; }
			case 2: {
				VATA::ExplicitFiniteAut a; load_by(a, how, parser, text, dict);
				if (out == 1) { VATA::AutBase::StateBackTranslStrict bt(dict.GetReverseMap()); dumped = a.DumpToString(ser, bt); } else dumped = a.DumpToString(ser, dict);
				break; }
			case 3: { VATA::BDDBottomUpTreeAut a; load_by(a, how, parser, text, dict); dumped = a.DumpToString(ser, dict); break; }
			default: {
				VATA::BDDTopDownTreeAut a; load_by(a, how, parser, text, dict);
				if (out == 1) { VATA::AutBase::StateBackTranslStrict bt(dict.GetReverseMap()); dumped = a.DumpToString(ser, bt); } else dumped = a.DumpToString(ser, dict);
				break; }
		}
	} catch (const std::exception& e) { if (err) *err = e.what(); return false; }
	return true;
}

// ----------------------------------------------------------------- fault-free round trips (strict)
void op_roundtrip(const Step& s) {
	const std::string& text = s.lit; long encmask = s.arg(0, 31);
	Desc D; std::string err;
	if (!mdl::parse_timbuk_ref(text, D, &err)) harness_error("generated text does not parse in the reference reader: " + err);
	VATA::Parsing::TimbukParser parser; VATA::Serialization::TimbukSerializer ser;
	// description level: parse(text) == D, parse(serialise(parse(text))) == D
	api_begin(); api_site("tx_roundtrip:parse");
	VATA::Util::AutDescription a = parser.ParseString(text);
	std::string text2 = ser.Serialize(a);
	VATA::Util::AutDescription a2 = parser.ParseString(text2);
	api_end(); count(c_oracle_evals); count(c_file_roundtrips);
	Desc g = from_lib(a);
	if (!(g == D)) c13_violation("C13.parse-equals-description", "tx_roundtrip:parse", "ParseString differs from the description:" + desc_diff(D, g));
	if (!(a2 == a) || !a.StrictlyEqual(a2)) {
		Desc g2 = from_lib(a2);
		if (!(g2 == g)) c13_violation("C13.serialise-parse-roundtrip", "tx_roundtrip:serialise", "parse(serialise(d)) differs from d:" + desc_diff(g, g2));
		// (name, Ops and States lines are not part of the claim: "gives back the same final states and rules")
	}
	Desc r2; if (!mdl::parse_timbuk_ref(text2, r2, &err) || !(r2 == D)) c13_violation("C13.serialise-parse-roundtrip", "tx_roundtrip:serialise-ref", "the serialised text does not denote the description (reference reader): " + err + desc_diff(D, r2));
	note_case(hash_str(text));
	// the reader of the command-line tool: what it returns is what the file holds, whether or not the last line is terminated
	if (!cli_dir().empty()) {
		std::string t = text; if (hash_str(text) & 1) while (!t.empty() && t.back() == '\n') t.pop_back();
		std::string path = cli_dir() + "/rt.timbuk"; unlink(path.c_str());
		{ std::ofstream o(path, std::ios::binary | std::ios::trunc); o << t; }
		api_begin(); api_site("tx_roundtrip:ReadFile");
		std::string back = VATA::Util::ReadFile(path);
		api_end(); count(c_oracle_evals); count(c_readfile_real);
		// judged through the parser, as `vata load` does: the description read from the file is the description written
		// (a reader that normalises line ends or terminates the last line would be fine; one that loses text is not)
		if (back != t) {
			bool ok = true; Desc gb;
			try { VATA::Util::AutDescription ab = parser.ParseString(back); gb = from_lib(ab); } catch (const std::exception&) { ok = false; }
			if (!ok || !(gb == D)) c13_violation("C13.file-parse-equals-description", "tx_roundtrip:ReadFile", "the text Util::ReadFile returns for a file (" + std::to_string(back.size()) + " of " + std::to_string(t.size()) + " bytes) does not parse to the description in the file" + (ok ? ":" + desc_diff(D, gb) : " (rejected)"));
		}
	}
	// per encoding: load, dump with the same state names, compare rule for rule; then once more (dump/load of an automaton)
	for (int enc = 1; enc <= 4; ++enc) {
		if (!((encmask >> enc) & 1)) continue;
		if (enc == 2 && !fa_shaped(D)) continue;
		std::string d1, d2, e1;
		const std::string site = std::string("tx_roundtrip:") + ENC[enc];
		api_begin(); api_site(site);
		bool ok = load_dump(enc, text, d1, &e1);
		api_end(); count(c_oracle_evals); count(c_file_roundtrips);
		if (!ok) { c13_violation("C13.load-accepts-valid-text", site, "a well-formed text was rejected: " + e1); continue; }
		Desc g1; if (!mdl::parse_timbuk_ref(d1, g1, &err)) { c13_violation("C13.dump-well-formed", site, "the dump is not well-formed Timbuk: " + err); continue; }
		Desc want = D;
		if (enc == 2) {
			// the finite-automaton dump writes one start arrow per start state: compare start STATES, edges and finals
			auto norm = [](Desc& x) { std::set<std::tuple<std::string, std::vector<std::string>, std::string>> t; for (auto& r : x.trans) t.insert(std::get<1>(r).empty() ? std::make_tuple(std::string("x"), std::get<1>(r), std::get<2>(r)) : r); x.trans = t; };
			norm(want); norm(g1);
		}
		if (!(g1 == want)) { c13_violation("C13.dump-load-roundtrip", site, "load + dump does not give back the rules and final states under the same names:" + desc_diff(want, g1)); continue; }
		api_begin(); api_site(site + ":again");
		bool ok2 = load_dump(enc, d1, d2, &e1);
		api_end(); count(c_file_roundtrips);
		if (!ok2) { c13_violation("C13.load-accepts-valid-text", site + ":again", "the library rejected its own dump: " + e1); continue; }
		Desc g2; if (!mdl::parse_timbuk_ref(d2, g2, &err)) { c13_violation("C13.dump-well-formed", site + ":again", "the second dump is not well-formed: " + err); continue; }
		if (enc == 2) { auto norm = [](Desc& x) { std::set<std::tuple<std::string, std::vector<std::string>, std::string>> t; for (auto& r : x.trans) t.insert(std::get<1>(r).empty() ? std::make_tuple(std::string("x"), std::get<1>(r), std::get<2>(r)) : r); x.trans = t; }; norm(g2); }
		if (!(g2 == g1)) c13_violation("C13.dump-load-roundtrip", site + ":again", "dump, load, dump is not a fix-point:" + desc_diff(g1, g2));
	}
}

// ----------------------------------------------------------------- storage faults
std::vector<std::string> split_lines(const std::string& t) { std::vector<std::string> l; size_t p = 0; while (p <= t.size()) { size_t q = t.find('\n', p); if (q == std::string::npos) { l.push_back(t.substr(p)); break; } l.push_back(t.substr(p, q - p + 1)); p = q + 1; } if (!l.empty() && l.back().empty()) l.pop_back(); return l; }
std::string join_lines(const std::vector<std::string>& l) { std::string s; for (auto& x : l) s += x; return s; }

const unsigned char FLIPS[] = {0x00, 0xff, 0x80, '(', ')', ',', ':', '-', '>', ' ', '\n'};
const size_t NFLIP = sizeof FLIPS / sizeof FLIPS[0];

// number of single faults of one kind for a text
size_t fault_space(int kind, const std::string& text) {
	size_t lines = split_lines(text).size();
	switch (kind) {
		case 0: return text.size() + 1;                 // truncate after k bytes, k = 0..n
		case 1: return lines;                           // drop line k
		case 2: return lines;                           // duplicate line k
		case 3: return lines > 0 ? lines - 1 : 0;       // swap lines k, k+1
		case 4: return text.size() * NFLIP;             // byte k / NFLIP := FLIPS[k % NFLIP]
		case 5: return text.size() + 1;                 // zero-filled tail from byte k
		default: return 0;
	}
}

std::string apply_fault(int kind, const std::string& text, size_t k, Counter* which) {
	std::vector<std::string> l;
	switch (kind) {
		case 0: *which = c_file_faults_truncate; return text.substr(0, k);
		case 1: *which = c_file_faults_linedrop; l = split_lines(text); if (k < l.size()) l.erase(l.begin() + long(k)); return join_lines(l);
		case 2: *which = c_file_faults_linedup; l = split_lines(text); if (k < l.size()) l.insert(l.begin() + long(k), l[k]); return join_lines(l);
		case 3: *which = c_file_faults_lineswap; l = split_lines(text); if (k + 1 < l.size()) std::swap(l[k], l[k + 1]); return join_lines(l);
		case 4: { *which = c_file_faults_byteflip; std::string t = text; size_t pos = k / NFLIP; if (pos < t.size()) { unsigned char v = FLIPS[k % NFLIP]; t[pos] = char(v == 0x80 ? (unsigned char)(t[pos]) ^ 0x80 : v); } return t; }
		case 5: { *which = c_file_faults_zerotail; std::string t = text; for (size_t i = k; i < t.size(); ++i) t[i] = 0; return t; }
		case 6: { *which = c_file_faults_garbage; Rng r(k * 7919 + 13); std::string t; size_t n = size_t(r.below(200));
			static const char* frag[] = {"Ops", "Automaton", "States", "Final States", "Transitions", "->", "(", ")", ",", ":", "\n", " ", "a", "q0", "-", ">", "\t", "\r\n"};
			for (size_t i = 0; i < n; ++i) { if (r.chance(1, 2)) t += frag[r.below(sizeof frag / sizeof frag[0])]; else t += char(r.below(256)); } return t; }
		default: { *which = c_file_faults_splice; Rng r(k * 104729 + 17); std::string t = text; if (t.empty()) return t;
			int n = r.range(1, 3);
			for (int i = 0; i < n; ++i) { size_t a = size_t(r.below(t.size())), len = size_t(r.below(40)), b = size_t(r.below(t.size() + 1)); std::string piece = t.substr(a, len); if (r.chance(1, 2)) t.insert(b, piece); else t.erase(a, len); if (t.empty()) break; } return t; }
	}
}

bool legal_name(const std::string& n) { if (n.empty()) return false; for (unsigned char c : n) if (c <= ' ' || c >= 127 || c == '(' || c == ')' || c == ',' || c == ':' || c == '-' || c == '>') return false; return true; }
bool legal_names(const Desc& d) {
	for (auto& f : d.finals) if (!legal_name(f)) return false;
	for (auto& t : d.trans) { if (!legal_name(std::get<0>(t)) || !legal_name(std::get<2>(t))) return false; for (auto& c : std::get<1>(t)) if (!legal_name(c)) return false; }
	return true;
}

// returns false if the library rejected the text
bool judge_faulted(const std::string& site, int enc, const std::string& t) {
	std::string d1, e;
	api_begin(); api_site(site);
	bool ok;
	try { ok = load_dump(enc, t, d1, &e); }
	catch (...) { api_end(); c13_violation("C13.non-std-exception", site, "an exception that is not a std::exception escaped on a damaged text"); return true; }
	api_end(); count(c_oracle_evals);
	if (!ok) { count(c_file_loads_rejected); return false; }
	count(c_file_loads_ok);
	// accepted: the loaded object must be a dump/load fix-point
	std::string d2; Desc g1, g2; std::string err;
	if (!mdl::parse_timbuk_ref(d1, g1, &err)) {
		// a damaged text may carry names the format cannot express (e.g. a state called "->"): then the dump need not be re-readable, but must be rejected or read back consistently by the library itself
		api_begin(); api_site(site + ":reload");
		try { ok = load_dump(enc, d1, d2, &e); } catch (...) { api_end(); c13_violation("C13.non-std-exception", site + ":reload", "non-std exception when re-loading a dump"); return true; }
		api_end(); return true;
	}
	api_begin(); api_site(site + ":reload");
	try { ok = load_dump(enc, d1, d2, &e); } catch (...) { api_end(); c13_violation("C13.non-std-exception", site + ":reload", "non-std exception when re-loading a dump"); return true; }
	api_end();
	// The round-trip clause is stated for names without whitespace and reserved punctuation.  A damaged
	// text can smuggle in a state called ":q8" or "q:", which the States line of the format cannot
	// express; the fix-point is demanded only when every name of the loaded automaton is expressible.
	if (!legal_names(g1)) return true;
	if (!ok) { c13_violation("C13.fixpoint-after-damaged-load", site, "a damaged text was accepted, but the dump of the loaded automaton is rejected: " + e + "\n  text: " + escape(t.substr(0, 300))); return true; }
	if (!mdl::parse_timbuk_ref(d2, g2, &err)) return true;
	if (enc == 2) { auto norm = [](Desc& x) { std::set<std::tuple<std::string, std::vector<std::string>, std::string>> tt; for (auto& r : x.trans) tt.insert(std::get<1>(r).empty() ? std::make_tuple(std::string("x"), std::get<1>(r), std::get<2>(r)) : r); x.trans = tt; }; norm(g1); norm(g2); }
	if (!(g1 == g2)) c13_violation("C13.fixpoint-after-damaged-load", site, "a damaged text was accepted, but dump / load / dump is not a fix-point:" + desc_diff(g1, g2) + "\n  text: " + escape(t.substr(0, 300)));
	return true;
}

void op_faults(const Step& s) {
	int kind = int(s.arg(0)); size_t from = size_t(s.arg(1)), cnt = size_t(s.arg(2)); long source = s.arg(3); long encmask = s.arg(4, 31);
	std::string text = s.lit;
	if (source == 1) {
		// the real reader, on a file of the repository
		api_begin(); api_site("tx_faults:ReadFile");
		text = VATA::Util::ReadFile(s.lit);
		api_end(); count(c_readfile_real);
	}
	size_t space = kind <= 5 ? fault_space(kind, text) : ~size_t(0);
	for (size_t k = from; k < from + cnt && k < space; ++k) {
		Counter which = c_file_faults_truncate; std::string t = apply_fault(kind, text, k, &which); count(which);
		bool parsed = true;
		for (int enc = 0; enc <= 4; ++enc) {
			if (!((encmask >> enc) & 1)) continue;
			// every loader calls ParseString first: a text the parser rejects is rejected by all of them in
			// the same way, so the four loaders are run on it only for one damaged text in eight
			if (enc > 0 && !parsed && (k & 7) != 0) { count(c_file_loads_rejected); continue; }
			bool ok = judge_faulted(std::string("tx_faults:") + ENC[enc] + ":kind" + std::to_string(kind), enc, t);
			if (enc == 0) parsed = ok;
		}
		note_case(mix64(hash_str(t), uint64_t(kind)));
	}
	// nothing else in the process was touched
	api_end();
	for (auto h : integrity_hooks()) h("C13.other-handles-untouched", "tx_faults");
}

// reload what a (possibly aborted) client dumped earlier: durability of a completed dump
void op_reload(const Step& s) {
	if (blobs().empty()) throw Skip();
	const Blob& b = blobs()[size_t(((s.arg(0) % long(blobs().size())) + long(blobs().size())) % long(blobs().size()))];
	int enc = b.kind == "et" ? 1 : (b.kind == "fa" ? 2 : (b.kind == "bu" ? 3 : 4));
	std::string d1, e; const std::string site = std::string("tx_reload:") + ENC[enc];
	api_begin(); api_site(site);
	bool ok = load_dump(enc, b.bytes, d1, &e);
	api_end(); count(c_oracle_evals); count(c_client_restarts);
	if (!ok) { c13_violation("C13.reload-of-completed-dump", site, "the library rejected a text it dumped itself: " + e); return; }
	Desc g; std::string err; if (!mdl::parse_timbuk_ref(d1, g, &err)) { c13_violation("C13.dump-well-formed", site, err); return; }
	if (enc == 2 && b.has_starts) {
		// the reloaded automaton must report the start states the dumped one reported, under the same names
		VATA::Parsing::TimbukParser parser; VATA::AutBase::StateDict dict; VATA::ExplicitFiniteAut a; std::set<std::string> now;
		api_begin(); api_site(site + ":GetStartStates");
		a.LoadFromString(parser, b.bytes, dict);
		// (the text was dumped without a dictionary: its names are the state numbers, possibly decorated; compare the numbers)
		auto bare = [](std::string n) { size_t k = 0; while (k < n.size() && !(n[k] >= '0' && n[k] <= '9')) ++k; return k < n.size() ? n.substr(k) : n; };
		for (const auto& q : a.GetStartStates()) now.insert(bare(dict.TranslateBwd(q)));
		api_end(); count(c_oracle_evals);
		if (now != b.api_starts) { std::string x, y; for (auto& q : b.api_starts) x += " " + q; for (auto& q : now) y += " " + q; c13_violation("C13.reload-of-completed-dump", site, "the dumped automaton had the start states {" + x + " }, the reloaded one has {" + y + " }\n  text: " + b.bytes); }
	}
	if (enc == 2) { mdl::FA got, want = mdl::fa_from_lit(b.model_lit); if (!mdl::desc_to_fa(g, "", got) || !(got.edges == want.edges && got.finals == want.finals && got.starts == want.starts)) c13_violation("C13.reload-of-completed-dump", site, "reloading a completed dump does not give the automaton that was dumped\n  dumped: " + b.model_lit + "\n  got   : " + mdl::to_lit(got)); }
	else { mdl::TA got, want = mdl::from_lit(b.model_lit); if (!mdl::desc_to_ta(g, "", got) || got != want) c13_violation("C13.reload-of-completed-dump", site, "reloading a completed dump does not give the automaton that was dumped\n  dumped: " + b.model_lit + "\n  got   : " + mdl::to_lit(got)); }
}

// ----------------------------------------------------------------- generators
const char NAMECHARS[] = "abcdefghijklmnopqrstuvwxyzABCDEFGHIJKLMNOPQRSTUVWXYZ0123456789_#@!$%&*+./;<=?[]^{|}~'\"`\\";

// names may contain any byte that is neither whitespace nor reserved punctuation: that includes bytes >= 0x80
// (UTF-8 text, Latin-1), at the ends of a name as well as inside
std::string rand_name(Rng& r, bool fancy) {
	size_t n = size_t(r.range(1, fancy ? 6 : 3)); std::string s;
	static const char* const utf8[] = {"\xc3\xa1", "\xce\xa9", "\xc5\xbe", "\xe2\x82\xac", "\xf0\x9f\x8c\xb3", "\xe9", "\xff", "\x80", "\xa0", "\x85"};
	for (size_t i = 0; i < n; ++i) {
		if (fancy && r.chance(1, 6)) s += utf8[r.below(sizeof utf8 / sizeof utf8[0])];
		else s += fancy ? NAMECHARS[r.below(sizeof NAMECHARS - 1)] : "abcdefgpqrs0123"[r.below(15)];
	}
	return s;
}

// a random automaton description as Timbuk text (written by the harness's own writer)
std::string gen_desc_text(Rng& r, bool fa_only, bool fancy, bool* parens) {
	Desc d; d.name = r.chance(1, 2) ? "A" : rand_name(r, false);
	int ns = r.range(0, 5), nsym = r.range(1, 4); std::vector<std::string> st; std::vector<mdl::Sym> sy;
	std::set<std::string> used;
	for (int i = 0; i < ns; ++i) { std::string n; do { n = (fancy && r.chance(1, 2)) ? rand_name(r, true) : "q" + std::to_string(r.below(20)); } while (!used.insert(n).second); st.push_back(n); }
	std::set<std::string> usedsym;
	for (int i = 0; i < nsym; ++i) { std::string n; do { n = fancy ? rand_name(r, true) : std::string(1, char('a' + r.below(6))); } while (!usedsym.insert(n).second); sy.push_back(mdl::Sym(n, fa_only ? int(r.below(2)) : int(r.below(4)))); }
	if (fa_only) { bool has0 = false; for (auto& y : sy) if (y.second == 0) has0 = true; if (!has0) sy[0].second = 0; }
	for (auto& y : sy) d.ops.insert(r.chance(1, 6) ? mdl::Sym(y.first, -1) : y);      // some symbols are declared without a rank (legal; the parser records rank -1)
	for (auto& q : st) { d.states.insert(q); if (r.chance(1, 3)) d.finals.insert(q); }
	int nt = st.empty() ? 0 : r.range(0, 8);
	std::set<std::string> started;
	for (int i = 0; i < nt; ++i) {
		const mdl::Sym& y = r.pick(sy); std::vector<std::string> ch; for (int k = 0; k < y.second; ++k) ch.push_back(r.pick(st));
		std::string parent = r.pick(st);
		if (fa_only && y.second == 0 && !started.insert(parent).second) continue;      // one start arrow per start state (see DESIGN: start symbols)
		d.trans.insert(std::make_tuple(y.first, ch, parent));
	}
	*parens = r.chance(1, 3);
	if (r.chance(1, 10)) { d.finals.clear(); }
	return mdl::desc_to_timbuk(d, *parens);
}

std::vector<std::string>& corpus_files() {
	static std::vector<std::string> files; static bool done = false;
	if (done) return files; done = true;
	const char* dirs[] = {"/repo/automata/small_timbuk", "/repo/automata/fail_timbuk"};
	for (const char* d : dirs) {
		DIR* dp = opendir(d); if (!dp) continue;
		while (dirent* e = readdir(dp)) { std::string n = e->d_name; if (n == "." || n == "..") continue; std::string p = std::string(d) + "/" + n; struct stat st; if (stat(p.c_str(), &st) == 0 && S_ISREG(st.st_mode) && st.st_size <= 8192) files.push_back(p); }
		closedir(dp);
	}
	std::sort(files.begin(), files.end());
	return files;
}

struct WorkItem { size_t file; int kind; size_t from, cnt; };
std::vector<WorkItem>& corpus_items() {
	static std::vector<WorkItem> items; static bool done = false;
	if (done) return items; done = true;
	auto& files = corpus_files();
	for (size_t f = 0; f < files.size(); ++f) {
		std::ifstream in(files[f], std::ios::binary); std::string text((std::istreambuf_iterator<char>(in)), std::istreambuf_iterator<char>());
		const size_t CH = 48;
		for (int kind : {0, 1, 2, 3, 5}) { size_t sp = fault_space(kind, text); for (size_t from = 0; from < sp; from += CH) items.push_back(WorkItem{f, kind, from, CH}); }
	}
	// every single-byte substitution (each position x the eleven values of FLIPS: NUL, 0xff, high bit, the reserved punctuation, blank, newline);
	// after the other kinds, so that a budget too small for everything completes those first
	for (size_t f = 0; f < files.size(); ++f) {
		std::ifstream in(files[f], std::ios::binary); std::string text((std::istreambuf_iterator<char>(in)), std::istreambuf_iterator<char>());
		const size_t CH4 = 48 * NFLIP; size_t sp = fault_space(4, text);
		for (size_t from = 0; from < sp; from += CH4) items.push_back(WorkItem{f, 4, from, CH4});
	}
	return items;
}

} // namespace

namespace vsim {

Plan plan_C13(Rng& r, const std::string& tier) {
	Plan p; p.env = gen::gen_env(r, false); p.clients = 1;
	auto& items = corpus_items();
	// sentinels: automata alive in the process while texts are parsed
	gen::Pool pool = gen::make_pool(r, 4, 2); gen::TAOpts o; o.max_states = 3;
	p.steps.push_back(gen::mk(0, "et_load", {0, 0}, mdl::to_lit(gen::gen_ta(r, pool, o))));
	p.steps.push_back(gen::mk(0, "bdd_load", {1, 0}, mdl::to_lit(gen::gen_ta(r, pool, o))));
	p.steps.push_back(gen::mk(0, "fa_load", {}, mdl::to_lit(gen::gen_fa(r, {"a", "b"}, 3))));
	// even run indices work through the systematic part, odd ones (and everything beyond it) are sampled runs: whatever the budget
	// and however slow the machine, both parts make progress
	uint64_t idx = (g_run_index % 2 == 0) ? g_run_index / 2 : ~uint64_t(0);
	if (idx < items.size()) {
		// systematic part: the complete single-fault space (truncation, line faults, zero tails) of every shipped small text
		const WorkItem& w = items[size_t(idx)];
		// byte substitutions mostly give texts that still parse, and a BDD load / dump / reload costs tens of milliseconds: their complete
		// enumeration goes to the parser and the explicit tree loader (every loader calls the same parser first); the other loaders get them sampled
		p.steps.push_back(gen::mk(0, "tx_faults", {w.kind, long(w.from), long(w.cnt), 1, w.kind == 4 ? 3 : 31}, corpus_files()[w.file]));
		return p;
	}
	// sampled part: generated descriptions; strict round trip, then the complete single-fault space of that text, then sampled flips / garbage / splices
	bool fa_only = r.chance(1, 3), fancy = r.chance(1, 2), parens = false;
	std::string text = gen_desc_text(r, fa_only, fancy, &parens);
	p.steps.push_back(gen::mk(0, "tx_roundtrip", {31}, text));
	if (r.chance(1, 2)) {
		// durability of a completed dump across a client abort; "every automaton in any of the four encodings" includes those
		// that operations returned, so the second client runs a short history before it dumps
		p.clients = 2; size_t before = p.steps.size(); int dumps = 0;
		switch (r.below(4)) {
			case 0:
				p.steps.push_back(gen::mk(1, "et_load", {0, 0}, mdl::to_lit(gen::gen_ta(r, pool, o))));
				p.steps.push_back(gen::mk(1, "et_dump", {0}));
				p.steps.push_back(gen::mk(1, "fa_load", {}, mdl::to_lit(gen::gen_fa(r, {"a", "b"}, 3))));
				p.steps.push_back(gen::mk(1, "fa_dump", {0}));
				break;
			case 1: {
				std::vector<Step> h = fa_history_program(r, 1, 2, r.range(3, 12)); p.steps.insert(p.steps.end(), h.begin(), h.end());
				if (r.chance(1, 2)) {
					// an automaton whose start states carry no start symbol (a mirror image), fed into another operation; -1 names the newest handle
					p.steps.push_back(gen::mk(1, "fa_reverse", {long(r.below(16))}));
					switch (r.below(5)) {
						case 0: p.steps.push_back(gen::mk(1, "fa_union", {-1, long(r.below(16)), long(r.below(2))})); break;
						case 1: p.steps.push_back(gen::mk(1, "fa_isect", {-1, -1, 0})); break;
						case 2: p.steps.push_back(gen::mk(1, "fa_union_disj", {long(r.below(16)), -1})); break;
						case 3: p.steps.push_back(gen::mk(1, "fa_useless", {-1})); break;
						default: p.steps.push_back(gen::mk(1, "fa_witness", {-1})); break;
					}
					p.steps.push_back(gen::mk(1, "fa_dump", {-1})); p.steps.push_back(gen::mk(1, "fa_dump", {-2}));
				}
				int k = r.range(2, 5); for (int i = 0; i < k; ++i) p.steps.push_back(gen::mk(1, "fa_dump", {long(r.below(16))}));
				break; }
			case 2: { std::vector<Step> h = et_history_program(r, 1, pool, r.range(3, 10)); p.steps.insert(p.steps.end(), h.begin(), h.end()); break; }
			default: { std::vector<Step> h = bdd_history_program(r, 1, pool, r.range(3, 10)); p.steps.insert(p.steps.end(), h.begin(), h.end()); break; }
		}
		for (size_t i = before; i < p.steps.size(); ++i) if (p.steps[i].op == "et_dump" || p.steps[i].op == "fa_dump" || p.steps[i].op == "bdd_dump") ++dumps;
		if (r.chance(2, 3)) p.steps.push_back(gen::mk(1, "abort", {1, long(r.below(1000))}));
		for (int i = 0; i < dumps; ++i) p.steps.push_back(gen::mk(1, "tx_reload", {i}));
	}
	bool full = tier == "thorough" || r.chance(1, 2);
	for (int kind : {0, 1, 2, 3, 5}) {
		size_t sp = fault_space(kind, text);
		if (full) p.steps.push_back(gen::mk(0, "tx_faults", {kind, 0, long(sp), 0, 31}, text));
		else p.steps.push_back(gen::mk(0, "tx_faults", {kind, long(r.below(sp ? sp : 1)), 8, 0, 31}, text));
	}
	p.steps.push_back(gen::mk(0, "tx_faults", {4, long(r.below(text.size() * NFLIP + 1)), 24, 0, 31}, text));
	p.steps.push_back(gen::mk(0, "tx_faults", {6, long(r.below(1000000)), 6, 0, 31}, ""));
	p.steps.push_back(gen::mk(0, "tx_faults", {7, long(r.below(1000000)), 8, 0, 31}, text));
	return p;
}

size_t c13_corpus_items() { return corpus_items().size(); }

void register_text_ops() {
	register_op("tx_roundtrip", op_roundtrip); register_op("tx_faults", op_faults); register_op("tx_reload", op_reload);
}

} // namespace vsim
