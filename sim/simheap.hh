// simheap: the simulated heap (DESIGN.md 2.2).  Replaces every global operator
// new/delete of the harness executable -- a link-time seam, no /repo hook.
#pragma once
#include <cstdint>
#include <cstddef>

namespace simheap {

enum Place { P_ASC = 0, P_DESC, P_SLAB_ASC, P_SLAB_DESC, P_SLAB_RANDOM, P_COUNT };
enum Reuse { R_LIFO = 0, R_FIFO, R_RANDOM, R_NEVER, R_COUNT };
enum Noise { N_ZERO = 0, N_PATTERN, N_COUNT };

const char* place_name(int p);
const char* reuse_name(int r);
const char* noise_name(int n);

struct Config {
	int      place = P_ASC;
	int      reuse = R_LIFO;
	int      noise = N_ZERO;
	uint64_t layout_seed = 1;
	uint64_t noise_seed = 1;
	uint64_t step_tick_budget = 50000000ull;   // per step
	bool     passthrough = false;              // valgrind mode: use malloc
};

struct Stats {
	uint64_t allocs = 0, frees = 0, bytes = 0;
	uint64_t reused = 0;             // a previously freed address handed out again
	uint64_t reused_same_step = 0;   // ... freed within the current step (ABA-relevant)
	uint64_t out_of_order = 0;       // block placed below the previously placed block
	uint64_t live = 0, max_live = 0;
	uint64_t ticks = 0;
};

void map_arena();                       // call once in the zygote, before any fork
void begin_run(const Config& cfg);      // in the child: switch from malloc to the arena
void end_run();                         // back to malloc (frees of arena blocks still dispatch)
bool active();
void step_begin();                      // start of one API call: per-step tick counter := 0, budget := default
void set_step_budget(uint64_t ticks);   // budget of the current step only (0 = default)
void reset_step_ticks();
uint64_t step_ticks();
const Stats& stats();
uint64_t fingerprint();
void set_budget_handler(void (*h)());   // called when a step exceeds its tick budget; must not return
void stack_noise();                     // fill ~256 KiB of stack below the caller with the noise pattern
bool in_arena(const void* p);
uint64_t live_blocks();

} // namespace simheap
