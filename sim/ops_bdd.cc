// Steps over the BDD-encoded (semi-symbolic) tree automata, both encodings
// (C07, C08).  Results are read back through DumpToString and the harness's
// independent Timbuk reader.
#include "world.hh"
#include "profiles.hh"
#include "gen.hh"

#include <vata/vata.hh>
#include <vata/bdd_bu_tree_aut.hh>
#include <vata/bdd_td_tree_aut.hh>
#include <vata/parsing/timbuk_parser.hh>
#include <vata/serialization/timbuk_serializer.hh>

#define startTime startTime_bdd
#include "operations.hh"
#undef startTime

#include <memory>

using namespace vsim;
using mdl::TA; using mdl::Rule;
typedef VATA::BDDBottomUpTreeAut BU;
typedef VATA::BDDTopDownTreeAut TD;
typedef VATA::AutBase::StateType StateType;

namespace {

struct BH {
	std::unique_ptr<BU> bu; std::unique_ptr<TD> td;     // exactly one is set
	TA model; uint64_t origin = 0;
	bool is_bu() const { return bool(bu); }
};
struct Client { std::vector<BH> h; };
std::vector<Client> g_cl; uint64_t g_origin = 0;

inline long mod(long v, size_t n) { long m = long(n); long r = v % m; return r < 0 ? r + m : r; }
Client& CL(const Step& s) { if (g_cl.size() < size_t(g_nclients)) g_cl.resize(size_t(g_nclients)); return g_cl[size_t(mod(s.client, size_t(g_nclients)))]; }

// handle of the wanted encoding: slot modulo the live handles of that encoding
size_t HI(const Step& s, size_t argi, bool want_bu) {
	auto& v = CL(s).h; std::vector<size_t> idx; for (size_t i = 0; i < v.size(); ++i) if (v[i].is_bu() == want_bu) idx.push_back(i);
	if (idx.empty()) throw Skip(); return idx[size_t(mod(s.arg(argi), idx.size()))];
}

template <class A> bool read_back(const A& a, TA& out, std::string* why) {
	VATA::Serialization::TimbukSerializer ser; std::string text = a.DumpToString(ser);
	mdl::Desc d; std::string err;
	if (!mdl::parse_timbuk_ref(text, d, &err)) { if (why) *why = "dump is not well-formed Timbuk: " + err; return false; }
	if (!mdl::desc_to_ta(d, "", out)) { if (why) *why = "dump uses state names that are not numbers"; return false; }
	return true;
}
bool read_back(const BH& h, TA& out, std::string* why) { return h.is_bu() ? read_back(*h.bu, out, why) : read_back(*h.td, out, why); }

// "denotes the same language": rule-for-rule equality is the fast path
bool same_language(const TA& got, const TA& want, bool* too_big) {
	if (got == want) return true;
	int e = mdl::equiv(got, want); if (e < 0) { if (too_big) *too_big = true; count(c_model_too_big); return true; }
	return e == 1;
}

void check_all(const std::string& oracle, const std::string& site, const std::string& after) {
	api_end();
	for (size_t c = 0; c < g_cl.size(); ++c) for (size_t i = 0; i < g_cl[c].h.size(); ++i) {
		BH& h = g_cl[c].h[i]; TA got; std::string why; count(c_reread_handles);
		if (!read_back(h, got, &why)) violation(oracle, site, why + " after " + after);
		else if (!same_language(got, h.model, nullptr))
			violation(oracle, site, std::string("client ") + std::to_string(c) + (h.is_bu() ? " bdd-bu" : " bdd-td") + " handle " + std::to_string(i) + " changed its language after " + after + "\n  model: " + mdl::to_lit(h.model) + "\n  read : " + mdl::to_lit(got));
	}
}
void after_step(const Step& s, const std::string& what) { api_end(); if (armed("C08")) { count(c_oracle_evals); check_all("C08.handle-keeps-language", s.op, what); } }

BH& add_bu(Client& c, BU&& a, const TA& m, uint64_t origin = 0) { BH h; h.bu.reset(new BU(std::move(a))); h.model = m; h.origin = origin ? origin : ++g_origin; c.h.push_back(std::move(h)); count(c_handles_created); return c.h.back(); }
BH& add_td(Client& c, TD&& a, const TA& m, uint64_t origin = 0) { BH h; h.td.reset(new TD(std::move(a))); h.model = m; h.origin = origin ? origin : ++g_origin; c.h.push_back(std::move(h)); count(c_handles_created); return c.h.back(); }

template <class A> bool result_model(const A& r, TA& got, const std::string& site) {
	api_end(); std::string why;
	if (!read_back(r, got, &why)) { violation(g_profile + ".result-readable", site, why); return false; }
	observe(got.hash());
	return true;
}

void note(const TA& a, const TA* b, uint64_t x) { uint64_t h = a.hash(); if (b) h = mix64(h, b->hash()); note_case(mix64(h, x)); }

void lang_oracle(const std::string& oracle, const std::string& site, const TA& got, const TA& want, const std::string& what) {
	api_end(); count(c_oracle_evals);
	int e = mdl::equiv(got, want); if (e < 0) { count(c_model_too_big); return; }
	(mdl::is_empty(want) ? count(c_lang_empty) : count(c_lang_nonempty));
	if (!e) violation(oracle, site, what + ": language differs from the reference\n  result   : " + mdl::to_lit(got) + "\n  reference: " + mdl::to_lit(want));
}

// ----------------------------------------------------------------- load / value operations
void op_load(const Step& s) {
	TA lit = mdl::from_lit(s.lit); bool bu = s.arg(0) & 1;
	VATA::Parsing::TimbukParser parser; VATA::AutBase::StateDict dict;
	std::string text = mdl::to_timbuk(lit, "q", nullptr, (s.arg(1) & 1) != 0);
	std::map<long, long> m; TA model, got;
	if (bu) {
		BU a; api_begin(); a.LoadFromString(parser, text, dict); api_end();
		for (long q : lit.states()) { auto it = dict.FindFwd("q" + std::to_string(q)); if (it != dict.EndFwd()) m[q] = long(it->second); }
		model = mdl::rename(lit, m);
		if (armed("C08") || armed("C13")) { if (!result_model(a, got, "bu_load")) return; lang_oracle(g_profile + ".load-language", "bdd_load:bu", got, model, "load into bdd-bu and dump"); note(model, nullptr, 1); }
		add_bu(CL(s), std::move(a), model);
	} else {
		TD a; api_begin(); a.LoadFromString(parser, text, dict); api_end();
		for (long q : lit.states()) { auto it = dict.FindFwd("q" + std::to_string(q)); if (it != dict.EndFwd()) m[q] = long(it->second); }
		model = mdl::rename(lit, m);
		if (armed("C08") || armed("C13")) { if (!result_model(a, got, "td_load")) return; lang_oracle(g_profile + ".load-language", "bdd_load:td", got, model, "load into bdd-td and dump"); note(model, nullptr, 2); }
		add_td(CL(s), std::move(a), model);
	}
	after_step(s, "bdd_load");
}

void op_copy(const Step& s) {
	bool bu = s.arg(1) & 1; size_t i = HI(s, 0, bu); Client& c = CL(s);
	api_begin();
	if (bu) { BU n(*c.h[i].bu); TA m = c.h[i].model; uint64_t og = c.h[i].origin; add_bu(c, std::move(n), m, og); }
	else { TD n(*c.h[i].td); TA m = c.h[i].model; uint64_t og = c.h[i].origin; add_td(c, std::move(n), m, og); }
	count(c_handles_shared);
	after_step(s, "bdd_copy");
}
void op_assign(const Step& s) {
	bool bu = s.arg(2) & 1; size_t i = HI(s, 0, bu), j = HI(s, 1, bu); Client& c = CL(s);
	api_begin();
	if (bu) *c.h[i].bu = *c.h[j].bu; else *c.h[i].td = *c.h[j].td;
	c.h[i].model = c.h[j].model; c.h[i].origin = c.h[j].origin; count(c_handles_shared);
	after_step(s, "bdd_assign");
}
// an object with a history (see et_twist): a near relative of the handle's value is loaded aside and copy-assigned over the same object
void op_twist(const Step& s) {
	bool bu = s.arg(1) & 1; size_t i = HI(s, 0, bu); Client& c = CL(s); Rng r(uint64_t(s.arg(2)) + 47);
	gen::Pool pool; for (auto& y : c.h[i].model.symbols()) pool.push_back(mdl::Sym(y.first, y.second));
	if (pool.empty() || c.h[i].model.rules.size() > 200) throw Skip();
	TA rel = gen::derive_ta(r, pool, c.h[i].model, (s.arg(3) & 1) ? 3 : 2); if (s.arg(3) & 2) rel = gen::derive_ta(r, pool, rel, 3);
	VATA::Parsing::TimbukParser parser; VATA::AutBase::StateDict dict; std::string text = mdl::to_timbuk(rel, "q");
	std::map<long, long> m;
	api_begin();
	if (bu) { BU fresh; fresh.LoadFromString(parser, text, dict); *c.h[i].bu = fresh; }
	else { TD fresh; fresh.LoadFromString(parser, text, dict); *c.h[i].td = fresh; }
	api_end();
	for (long q : rel.states()) { auto it = dict.FindFwd("q" + std::to_string(q)); if (it != dict.EndFwd()) m[q] = long(it->second); }
	c.h[i].model = mdl::rename(rel, m); c.h[i].origin = ++g_origin;
	after_step(s, "bdd_twist");
}
void op_move_assign(const Step& s) {
	bool bu = s.arg(2) & 1; size_t i = HI(s, 0, bu), j = HI(s, 1, bu); Client& c = CL(s); if (i == j) throw Skip();
	api_begin();
	if (bu) *c.h[i].bu = std::move(*c.h[j].bu); else *c.h[i].td = std::move(*c.h[j].td);
	c.h[i].model = c.h[j].model; c.h[i].origin = c.h[j].origin; c.h.erase(c.h.begin() + long(j)); count(c_handles_destroyed);
	after_step(s, "bdd_move_assign");
}
void op_move_ctor(const Step& s) {
	bool bu = s.arg(1) & 1; size_t i = HI(s, 0, bu); Client& c = CL(s); TA m = c.h[i].model; uint64_t og = c.h[i].origin;
	api_begin();
	if (bu) { BU n(std::move(*c.h[i].bu)); c.h.erase(c.h.begin() + long(i)); add_bu(c, std::move(n), m, og); }
	else { TD n(std::move(*c.h[i].td)); c.h.erase(c.h.begin() + long(i)); add_td(c, std::move(n), m, og); }
	count(c_handles_destroyed);
	after_step(s, "bdd_move_ctor");
}
void op_destroy(const Step& s) {
	bool bu = s.arg(1) & 1; size_t i = HI(s, 0, bu); Client& c = CL(s);
	api_begin(); c.h.erase(c.h.begin() + long(i)); count(c_handles_destroyed);
	after_step(s, "bdd_destroy");
}

// SetStateFinal on one handle: copies share the transition table, their final sets are their own
void op_final(const Step& s) {
	bool bu = s.arg(1) & 1; size_t i = HI(s, 0, bu); Client& c = CL(s);
	std::set<long> st = c.h[i].model.states(); if (st.empty()) throw Skip();
	auto it = st.begin(); std::advance(it, long(mod(s.arg(2), st.size()))); long q = *it;
	api_begin(); api_site(bu ? "bdd_final:bu" : "bdd_final:td");
	if (bu) c.h[i].bu->SetStateFinal(StateType(q)); else c.h[i].td->SetStateFinal(StateType(q));
	api_end();
	c.h[i].model.finals.insert(q); c.h[i].origin = ++g_origin;      // no longer the same value as its copies (the table stays shared)
	after_step(s, "bdd_final");
}

// dump to the text store: the only view of a BDD automaton is its dump, so what must come back is what the dump says
void op_dump(const Step& s) {
	bool bu = s.arg(1) & 1; size_t i = HI(s, 0, bu); Client& c = CL(s);
	VATA::Serialization::TimbukSerializer ser;
	api_begin(); api_site(bu ? "bdd_dump:bu" : "bdd_dump:td");
	std::string text = bu ? c.h[i].bu->DumpToString(ser) : c.h[i].td->DumpToString(ser);
	api_end(); observe(text);
	mdl::Desc d; std::string err; TA shown;
	if (!mdl::parse_timbuk_ref(text, d, &err)) { if (armed("C13")) violation("C13.dump-well-formed", "bdd_dump", err); return; }
	if (!mdl::desc_to_ta(d, "", shown)) throw Skip();
	Blob b; b.bytes = text; b.kind = bu ? "bu" : "td"; b.model_lit = mdl::to_lit(shown); b.owner = s.client; blobs().push_back(b);
}

// ----------------------------------------------------------------- operations (C08)
void operands_unchanged(const Step& s, BH& a, BH* b) {
	api_end(); count(c_operand_rechecks); TA g; std::string why;
	if (!read_back(a, g, &why) || !same_language(g, a.model, nullptr)) violation("C08.operand-unchanged", s.op, "the language of the left operand changed " + why + "\n  model: " + mdl::to_lit(a.model) + "\n  read : " + mdl::to_lit(g));
	if (b) { TA g2; if (!read_back(*b, g2, &why) || !same_language(g2, b->model, nullptr)) violation("C08.operand-unchanged", s.op, "the language of the right operand changed " + why + "\n  model: " + mdl::to_lit(b->model) + "\n  read : " + mdl::to_lit(g2)); }
}

// The state set of a BDD automaton, as its client can observe it: every state
// its dump mentions.  Automata that share a transition table see each other's
// rules in their dumps (the table is one name space), so "disjoint state sets",
// the contract of UnionDisjointStates, has to be established against that.
// Moreover the final states of an automaton that shares the table are not visible in the
// dump of its peers.  The client therefore treats the state numbers of all live automata
// of one encoding as ONE name space (the only discipline under which writing the right
// operand's rules into the left operand's shared table is harmless).
std::set<long> observed_states(const BH& h) {
	std::set<long> s = h.model.states();
	VATA::Serialization::TimbukSerializer ser; std::string text = h.is_bu() ? h.bu->DumpToString(ser) : h.td->DumpToString(ser);
	mdl::Desc d; if (!mdl::parse_timbuk_ref(text, d, nullptr)) return s;
	TA t; if (mdl::desc_to_ta(d, "", t)) { std::set<long> x = t.states(); s.insert(x.begin(), x.end()); }
	// states that own an (empty) entry in the table appear only in the States line of the dump
	for (const std::string& q : d.states) { char* e = nullptr; long v = strtol(q.c_str(), &e, 10); if (!q.empty() && *e == 0) s.insert(v); }
	return s;
}
std::set<long> namespace_states(bool bu, const BH* except) {
	std::set<long> all;
	for (auto& c : g_cl) for (auto& h : c.h) if (h.is_bu() == bu && &h != except) { std::set<long> s = observed_states(h); all.insert(s.begin(), s.end()); }
	return all;
}

void op_binary(const Step& s) {
	bool bu = s.arg(3) & 1; long kind = mod(s.arg(2), 3);      // 0 union, 1 union-disjoint, 2 intersection
	size_t i = HI(s, 0, bu), j = HI(s, 1, bu); Client& c = CL(s);
	TA ma = c.h[i].model, mb = c.h[j].model; const char* kn[] = {"union", "union_disj", "isect"};
	{ size_t na = ma.states().size() + ma.rules.size(), nb = mb.states().size() + mb.rules.size(); if (na > 200 || nb > 200 || na * nb > 6000) throw Skip(); }     // results fed back into products: see ops_fa.cc
	if (kind == 1 && c.h[i].origin == c.h[j].origin) throw Skip();      // UnionDisjointStates asks for disjoint state sets: two copies of one automaton cannot be made to satisfy that
	const std::string site = std::string("bdd_") + kn[kind] + (bu ? ":bu" : ":td") + (c.h[i].origin == c.h[j].origin ? ":shared-table" : "");
	bool with_maps = s.arg(4) & 1;
	VATA::AutBase::StateToStateMap m1, m2; VATA::AutBase::ProductTranslMap pm; TA got; bool ok = true;
	api_begin(); api_site(site);
	if (bu) {
		std::unique_ptr<BU> shifted; const BU* rhs = c.h[j].bu.get();
		if (kind == 1) {
			std::set<long> sa = namespace_states(true, &c.h[j]), sb = observed_states(c.h[j]); bool dis = true; for (long q : sb) if (sa.count(q)) dis = false;
			if (!dis && !(c.h[i].origin == c.h[j].origin)) { long off = std::max(sa.empty() ? 0l : *sa.rbegin(), sb.empty() ? 0l : *sb.rbegin()) + 1;      /* beyond every state of the name space, the right operand's own included: the original stays alive and may share the left operand's table */ VATA::AutBase::StateToStateMap sm; VATA::AutBase::StateToStateTranslWeak tr(sm, [off](const StateType& q) { return q + StateType(off); }); shifted.reset(new BU(c.h[j].bu->ReindexStates(tr))); rhs = shifted.get(); }
		}
		BU r = kind == 0 ? (with_maps ? BU::Union(*c.h[i].bu, *rhs, &m1, &m2) : BU::Union(*c.h[i].bu, *rhs)) : (kind == 1 ? BU::UnionDisjointStates(*c.h[i].bu, *rhs) : (with_maps ? BU::Intersection(*c.h[i].bu, *rhs, &pm) : BU::Intersection(*c.h[i].bu, *rhs)));
		api_end(); ok = result_model(r, got, site); if (ok) add_bu(c, std::move(r), got);
	} else {
		std::unique_ptr<TD> shifted; const TD* rhs = c.h[j].td.get();
		if (kind == 1) {
			std::set<long> sa = namespace_states(false, &c.h[j]), sb = observed_states(c.h[j]); bool dis = true; for (long q : sb) if (sa.count(q)) dis = false;
			if (!dis && !(c.h[i].origin == c.h[j].origin)) { long off = std::max(sa.empty() ? 0l : *sa.rbegin(), sb.empty() ? 0l : *sb.rbegin()) + 1;      /* beyond every state of the name space, the right operand's own included: the original stays alive and may share the left operand's table */ VATA::AutBase::StateToStateMap sm; VATA::AutBase::StateToStateTranslWeak tr(sm, [off](const StateType& q) { return q + StateType(off); }); shifted.reset(new TD(c.h[j].td->ReindexStates(tr))); rhs = shifted.get(); }
		}
		TD r = kind == 0 ? (with_maps ? TD::Union(*c.h[i].td, *rhs, &m1, &m2) : TD::Union(*c.h[i].td, *rhs)) : (kind == 1 ? TD::UnionDisjointStates(*c.h[i].td, *rhs) : (with_maps ? TD::Intersection(*c.h[i].td, *rhs, &pm) : TD::Intersection(*c.h[i].td, *rhs)));
		api_end(); ok = result_model(r, got, site); if (ok) add_td(c, std::move(r), got);
	}
	if (!ok) return;
	if (armed("C08")) {
		lang_oracle(kind == 2 ? "C08.isect-language" : "C08.union-language", site, got, kind == 2 ? mdl::isect(ma, mb) : mdl::unite_tagged(ma, mb), kn[kind]);
		operands_unchanged(s, c.h[i], &c.h[j]); note(ma, &mb, 10 + uint64_t(kind) * 2 + uint64_t(bu));
	}
	observe(mdl::to_lit(got));
	after_step(s, site);
}

void op_trim(const Step& s) {
	bool bu = s.arg(2) & 1, useless = s.arg(1) & 1; size_t i = HI(s, 0, bu); Client& c = CL(s); TA ma = c.h[i].model, got; bool ok;
	const std::string site = std::string(useless ? "bdd_useless" : "bdd_unreach") + (bu ? ":bu" : ":td");
	api_begin(); api_site(site);
	if (bu) { BU r = useless ? c.h[i].bu->RemoveUselessStates() : c.h[i].bu->RemoveUnreachableStates(); api_end(); ok = result_model(r, got, site); if (ok) add_bu(c, std::move(r), got); }
	else { TD r = useless ? c.h[i].td->RemoveUselessStates() : c.h[i].td->RemoveUnreachableStates(); api_end(); ok = result_model(r, got, site); if (ok) add_td(c, std::move(r), got); }
	if (!ok) return;
	if (armed("C08")) {
		lang_oracle("C08.trim-language", site, got, ma, useless ? "RemoveUselessStates" : "RemoveUnreachableStates");
		if (useless) {
			count(c_oracle_evals); std::set<long> prod = mdl::productive(got), reach = mdl::reachable(got);
			for (long q : got.states()) if (!prod.count(q) || !reach.count(q)) violation("C08.useless-postcondition", site, "state " + std::to_string(q) + " remains but is useless\n  input : " + mdl::to_lit(ma) + "\n  result: " + mdl::to_lit(got));
		}
		operands_unchanged(s, c.h[i], nullptr); note(ma, nullptr, 20 + uint64_t(useless) * 2 + uint64_t(bu));
	}
	after_step(s, site);
}

void op_to_td(const Step& s) {
	size_t i = HI(s, 0, true); Client& c = CL(s); TA ma = c.h[i].model, got;
	api_begin(); api_site("bdd_to_td");
	TD r = c.h[i].bu->GetTopDownAut(); api_end();
	if (!result_model(r, got, "bdd_to_td")) return;
	add_td(c, std::move(r), got);
	if (armed("C08")) { lang_oracle("C08.to-topdown-language", "bdd_to_td", got, ma, "GetTopDownAut"); operands_unchanged(s, c.h[i], nullptr); note(ma, nullptr, 30); }
	after_step(s, "bdd_to_td");
}

void op_reindex(const Step& s) {
	bool bu = s.arg(1) & 1; size_t i = HI(s, 0, bu); Client& c = CL(s); TA ma = c.h[i].model, got; Rng r(uint64_t(s.arg(2)) + 5);
	VATA::AutBase::StateToStateMap sm; StateType cnt = StateType(r.below(2) ? 0 : r.below(30));
	VATA::AutBase::StateToStateTranslWeak tr(sm, [&cnt](const StateType&) { return cnt++; });
	bool ok;
	api_begin(); api_site(bu ? "bdd_reindex:bu" : "bdd_reindex:td");
	if (bu) { BU x = c.h[i].bu->ReindexStates(tr); api_end(); ok = result_model(x, got, "bdd_reindex"); if (ok) add_bu(c, std::move(x), got); }
	else { TD x = c.h[i].td->ReindexStates(tr); api_end(); ok = result_model(x, got, "bdd_reindex"); if (ok) add_td(c, std::move(x), got); }
	if (!ok) return;
	if (armed("C08")) { lang_oracle("C08.reindex-language", "bdd_reindex", got, ma, "ReindexStates"); operands_unchanged(s, c.h[i], nullptr); }
	after_step(s, "bdd_reindex");
}

// ----------------------------------------------------------------- inclusion (C07)
struct Sel { const char* name; bool down, rec, opt, sim; };
const Sel SELS[] = {
	{"up-nosim", false, false, false, false}, {"up-sim", false, false, false, true},
	{"down-nonrec-nosim", true, false, false, false}, {"down-nonrec-sim", true, false, false, true},
	{"down-rec-nosim", true, true, false, false}, {"down-rec-sim", true, true, false, true},
	{"down-rec-opt-nosim", true, true, true, false}, {"down-rec-opt-sim", true, true, true, true},
	{"down-nonrec-opt-nosim", true, false, true, false}, {"up-optC", false, false, true, false}};
const int N_SEL = 10;

void set_ip(const Sel& x, VATA::InclParam& ip, Options& o) {
	ip.SetAlgorithm(VATA::InclParam::e_algorithm::antichains);
	ip.SetDirection(x.down ? VATA::InclParam::e_direction::downward : VATA::InclParam::e_direction::upward);
	ip.SetUseRecursion(x.rec); ip.SetUseDownwardCacheImpl(x.opt); ip.SetUseSimulation(x.sim);
	o["dir"] = x.down ? "down" : "up"; o["rec"] = x.rec ? "yes" : "no"; o["optC"] = x.opt ? "yes" : "no"; o["sim"] = x.sim ? "yes" : "no";
}

// which selections the dispatch code implements
bool bu_implemented(long sel) { return sel == 0 || sel == 5; }            // upward without simulation; downward recursive with simulation
bool td_implemented(long sel) { return sel == 4 || sel == 5 || sel == 6 || sel == 7; }

// returns 0/1, 2 = NotImplementedException
int bu_incl(const BU& a, const BU& b, long sel, long via) {
	VATA::InclParam ip; Options o; set_ip(SELS[sel], ip, o);
	try {
		if (via == 2) return BU::CheckInclusion(a, b) ? 1 : 0;                 // default parameters
		if (via == 0 && (!ip.GetUseSimulation() || sel == 5)) return BU::CheckInclusion(a, b, ip) ? 1 : 0;   // sel 5 computes its simulation itself
		Arguments args; args.options = o; return ::CheckInclusion<BU>(a, b, args) ? 1 : 0;
	} catch (const VATA::NotImplementedException&) { count(c_notimpl_thrown); return 2; }
	catch (const std::exception&) { if (via != 2 && !bu_implemented(sel)) { count(c_notimpl_thrown); return 2; } throw; }      // "reported by an exception": any exception will do
}

// Top-down inclusion.  With simulation the preorder is obtained the only way
// the library produces one: sanitise the bottom-up pair, unite, bottom-up
// downward simulation with the state count, invert both (the sequence inside
// bdd-bu's own DOWN_REC_SIM).
int td_incl(const TD& a, const TD& b, const BU* abu, const BU* bbu, long sel) {
	VATA::InclParam ip; Options o; set_ip(SELS[sel], ip, o);
	try {
		if (!ip.GetUseSimulation()) return TD::CheckInclusion(a, b, ip) ? 1 : 0;
		if (!abu || !bbu) throw Skip();
		BU sa(*abu), sb(*bbu);
		StateType states = VATA::AutBase::SanitizeAutsForInclusion(sa, sb);
		BU un = BU::UnionDisjointStates(sa, sb);
		VATA::SimParam sp; sp.SetRelation(VATA::SimParam::e_sim_relation::TA_DOWNWARD); sp.SetNumStates(states);
		VATA::AutBase::StateDiscontBinaryRelation sim = un.ComputeSimulation(sp);
		TD ta = sa.GetTopDownAut(), tb = sb.GetTopDownAut();
		ip.SetSimulation(&sim);
		return TD::CheckInclusion(ta, tb, ip) ? 1 : 0;
	} catch (const VATA::NotImplementedException&) { count(c_notimpl_thrown); return 2; }
	catch (const std::exception&) { if (!td_implemented(sel)) { count(c_notimpl_thrown); return 2; } throw; }
}

void judge(const std::string& site, bool implemented, int v, const TA& ma, const TA& mb, uint64_t tag) {
	api_end(); count(c_oracle_evals);
	if (!implemented) {
		// "unimplemented selections are reported by an exception, never by a wrong verdict": a verdict that is returned must be right
		if (v != 2) { int want = mdl::incl(ma, mb); if (want >= 0 && v != want) violation("C07.unimplemented-selection", site, std::string("a selection that is not among the implemented ones returned the wrong verdict ") + (v ? "true" : "false") + "\n  smaller: " + mdl::to_lit(ma) + "\n  bigger : " + mdl::to_lit(mb)); }
		return;
	}
	if (v == 2) { violation("C07.implemented-selection", site, "an implemented selection threw NotImplementedException"); return; }
	int want = mdl::incl(ma, mb); if (want < 0) { count(c_model_too_big); return; }
	(want ? count(c_verdict_true) : count(c_verdict_false));
	if (v != want) violation("C07.verdict", site, std::string("CheckInclusion returned ") + (v ? "true" : "false") + " but the reference says " + (want ? "included" : "not included") + "\n  smaller: " + mdl::to_lit(ma) + "\n  bigger : " + mdl::to_lit(mb));
	note(ma, &mb, tag);
}

void op_incl(const Step& s) {
	bool bu = s.arg(3) & 1; long sel = mod(s.arg(2), N_SEL), via = s.arg(4) & 1; Client& c = CL(s);
	if (bu) {
		size_t i = HI(s, 0, true), j = HI(s, 1, true);
		if (s.arg(4) == 2) { via = 2; sel = 0; }
		const std::string site = std::string("bdd_incl:bu:") + SELS[sel].name + (via == 2 ? ":default-overload" : (via || (SELS[sel].sim && sel != 5)) ? ":cli" : ":api");
		api_begin(); api_site(site, SELS[sel].down ? BUDGET_INCONCLUSIVE : BUDGET_HANG, SELS[sel].down ? 3000000 : 30000000);
		int v = bu_incl(*c.h[i].bu, *c.h[j].bu, sel, via); observe(uint64_t(v));
		// through the CLI protocol "up-sim" asks bdd-bu for an upward simulation, which it reports as not implemented
		if (armed("C07")) { judge(site, bu_implemented(sel), v, c.h[i].model, c.h[j].model, 100 + uint64_t(sel)); }
	} else {
		size_t i = HI(s, 0, false), j = HI(s, 1, false);
		const std::string site = std::string("bdd_incl:td:") + SELS[sel].name + ":api";
		// the bottom-up twins (same models) provide the simulation when one is asked for
		const BU* abu = nullptr; const BU* bbu = nullptr;
		for (auto& h : c.h) if (h.is_bu()) { if (!abu && h.model == c.h[i].model) abu = h.bu.get(); if (!bbu && h.model == c.h[j].model) bbu = h.bu.get(); }
		if (SELS[sel].sim && td_implemented(sel) && (!abu || !bbu)) throw Skip();
		if (SELS[sel].sim && !td_implemented(sel)) throw Skip();     // needs a preorder the library cannot produce for that selection
		api_begin(); api_site(site, BUDGET_INCONCLUSIVE, 3000000);
		int v = td_incl(*c.h[i].td, *c.h[j].td, abu, bbu, sel); observe(uint64_t(v));
		if (armed("C07")) judge(site, td_implemented(sel), v, c.h[i].model, c.h[j].model, 200 + uint64_t(sel));
	}
	if (armed("C07")) { api_end(); }
}

// ----------------------------------------------------------------- symbolic mode (symbols are sets of 16-bit codes written with don't-cares)
// In the ordinary ("explicit") load every symbol is one complete 16-bit code, so every transition MTBDD is a bundle of
// full-length paths.  In "symbolic" mode a rule carries a pattern over 0 / 1 / X and stands for all codes that match it:
// the diagrams then skip variables, share sub-diagrams and meet at different levels inside every apply - the
// representable automata C07 and C08 quantify over include these.  The reference model is the expansion: one rule per
// matching code.  The patterns generated here fix the first thirteen positions to 0, so that at most eight codes exist.
bool expand_patterns(const TA& in, TA& out, std::string* why) {
	out = TA(); out.finals = in.finals;
	for (const Rule& x : in.rules) {
		std::vector<size_t> xs; for (size_t i = 0; i < x.sym.size(); ++i) { char ch = x.sym[i]; if (ch == 'X') xs.push_back(i); else if (ch != '0' && ch != '1') { if (why) *why = "symbol '" + x.sym + "' is not a pattern over 0 / 1 / X"; return false; } }
		if (x.sym.size() != 16) { if (why) *why = "symbol '" + x.sym + "' does not have 16 positions"; return false; }
		if (xs.size() > 10) { if (why) *why = "pattern '" + x.sym + "' has " + std::to_string(xs.size()) + " don't-care positions although every loaded pattern fixed thirteen of them"; return false; }
		for (size_t m = 0; m < (size_t(1) << xs.size()); ++m) { Rule y = x; for (size_t k = 0; k < xs.size(); ++k) y.sym[xs[k]] = ((m >> k) & 1) ? '1' : '0'; out.rules.insert(y); }
	}
	return true;
}
bool read_back_sym(const BU& a, TA& out, std::string* why, std::string* text_out = nullptr) {
	VATA::Serialization::TimbukSerializer ser; std::string text = a.DumpToString(ser, "symbolic"); if (text_out) *text_out = text;
	mdl::Desc d; std::string err; TA pat;
	if (!mdl::parse_timbuk_ref(text, d, &err)) { if (why) *why = "symbolic dump is not well-formed Timbuk: " + err; return false; }
	if (!mdl::desc_to_ta(d, "", pat)) { if (why) *why = "symbolic dump uses state names that are not numbers"; return false; }
	return expand_patterns(pat, out, why);
}

void op_sym_episode(const Step& s) {
	size_t bar = s.lit.find(" || "); if (bar == std::string::npos) throw Skip();
	TA la = mdl::from_lit(s.lit.substr(0, bar)), lb = mdl::from_lit(s.lit.substr(bar + 4)); Rng r(uint64_t(s.arg(0)) + 59);
	const std::string P = g_profile;
	VATA::Parsing::TimbukParser parser; std::string why;
	auto load = [&](const TA& lit, BU& a, TA& model) {
		VATA::AutBase::StateDict dict; std::string text = mdl::to_timbuk(lit, "q");
		api_begin(); api_site("bdd_sym:load"); a.LoadFromString(parser, text, dict, "symbolic"); api_end();
		std::map<long, long> m; for (long q : lit.states()) { auto it = dict.FindFwd("q" + std::to_string(q)); if (it != dict.EndFwd()) m[q] = long(it->second); }
		TA pm = mdl::rename(lit, m); std::string w; if (!expand_patterns(pm, model, &w)) harness_error("generated pattern not expandable: " + w);
	};
	auto lang = [&](const std::string& oracle, const std::string& site, const BU& x, const TA& want, const std::string& what) {
		TA got; std::string w; api_begin(); api_site(site + ":dump"); bool ok = read_back_sym(x, got, &w); api_end();
		if (!ok) { violation(P + ".symbolic-dump", site, w); return; }
		observe(got.hash());
		lang_oracle(oracle, site, got, want, what);
	};
	{
		BU a, b; TA ma, mb; load(la, a, ma); load(lb, b, mb);
		bool c08 = armed("C08") || armed("C13"), c07 = armed("C07");
		if (c08) { lang(P + ".load-language", "bdd_sym:load", a, ma, "symbolic load and symbolic dump"); note(ma, nullptr, 41); }
		int acts = r.range(2, 4);
		for (int k = 0; k < acts; ++k) {
			switch (r.below(c07 ? 10 : 6)) {
				case 0: { api_begin(); api_site("bdd_sym:union"); BU u = BU::Union(a, b); api_end(); if (c08) { lang("C08.union-language", "bdd_sym:union", u, mdl::unite_tagged(ma, mb), "Union of symbolically loaded automata"); note(ma, &mb, 42); } break; }
				case 1: { api_begin(); api_site("bdd_sym:isect"); BU u = BU::Intersection(a, b); api_end(); if (c08) { lang("C08.isect-language", "bdd_sym:isect", u, mdl::isect(ma, mb), "Intersection of symbolically loaded automata"); note(ma, &mb, 43); } break; }
				case 2: { api_begin(); api_site("bdd_sym:useless"); BU u = a.RemoveUselessStates(); api_end(); if (c08) { lang("C08.trim-language", "bdd_sym:useless", u, ma, "RemoveUselessStates of a symbolically loaded automaton"); note(ma, nullptr, 44); } break; }
				case 3: { api_begin(); api_site("bdd_sym:unreach"); BU u = b.RemoveUnreachableStates(); api_end(); if (c08) { lang("C08.trim-language", "bdd_sym:unreach", u, mb, "RemoveUnreachableStates of a symbolically loaded automaton"); note(mb, nullptr, 45); } break; }
				case 4: {      // dump / load / dump: what was dumped comes back
					std::string t1, w; TA g1, g2; api_begin(); api_site("bdd_sym:redump"); bool ok = read_back_sym(a, g1, &w, &t1); BU a2; if (ok) a2.LoadFromString(parser, t1, "symbolic"); api_end();
					if (ok && c08) { lang(P + ".dump-load-language", "bdd_sym:reload", a2, ma, "symbolic dump, load, dump"); }
					break; }
				case 5: { api_begin(); api_site("bdd_sym:copy-union"); BU cpy(a); BU u = BU::Union(cpy, a); api_end(); if (c08) lang("C08.union-language", "bdd_sym:copy-union", u, ma, "Union of a symbolically loaded automaton with its copy (shared table)"); break; }
				case 6: case 7: {      // bottom-up inclusion: upward, and downward with simulation, directly or through the tool's protocol
					long sel = r.chance(1, 2) ? 0 : 5, via = long(r.below(2)); const std::string site = std::string("bdd_sym:incl:bu:") + SELS[sel].name + (via ? ":cli" : ":api");
					api_begin(); api_site(site, SELS[sel].down ? BUDGET_INCONCLUSIVE : BUDGET_HANG, SELS[sel].down ? 3000000 : 30000000);
					int v = bu_incl(a, b, sel, via); observe(uint64_t(v)); judge(site, true, v, ma, mb, 300 + uint64_t(sel)); break; }
				default: {             // top-down inclusion on the converted automata
					long sel = 4 + long(r.below(4)); const std::string site = std::string("bdd_sym:incl:td:") + SELS[sel].name;
					api_begin(); api_site(site, BUDGET_INCONCLUSIVE, 3000000);
					TD ta = a.GetTopDownAut(), tb = b.GetTopDownAut();
					int v = td_incl(ta, tb, &a, &b, sel); observe(uint64_t(v)); judge(site, true, v, ma, mb, 400 + uint64_t(sel)); break; }
			}
		}
		api_begin();
	}
	api_end();
	after_step(s, "bdd_sym_episode");
}

// a pair for the symbolic mode: the symbols of an ordinary pair are replaced by patterns over the last three positions
// (drawn per symbol; patterns of different symbols may overlap, so one code can belong to several rules)
Step sym_episode_step(Rng& r, int c, const gen::Pool& pool, int max_states) {
	TA A, B; gen::gen_incl_pair(r, pool, max_states, false, A, B);
	std::map<std::string, std::string> m;
	for (const char* nm : {"a", "b", "c", "d", "e", "f", "g", "h"}) { std::string p(13, '0'); for (int i = 0; i < 3; ++i) { uint64_t x = r.below(10); p += x < 4 ? 'X' : (x < 7 ? '0' : '1'); } m[nm] = p; }
	A = mdl::rename_syms(A, m); B = mdl::rename_syms(B, m);
	return gen::mk(c, "bdd_sym_episode", {long(r.below(1000000))}, mdl::to_lit(A) + " || " + mdl::to_lit(B));
}

void abort_client(int c, uint64_t seed) {
	if (size_t(c) >= g_cl.size()) return; Rng r(seed + 47); auto& v = g_cl[size_t(c)].h;
	while (!v.empty()) { size_t i = size_t(r.below(v.size())); v.erase(v.begin() + long(i)); count(c_handles_destroyed); }
	if (armed("C08")) check_all("C08.handle-keeps-language", "abort", "abort of client " + std::to_string(c));
}
void final_check() {
	if (armed("C08")) check_all("C08.handle-keeps-language", "<final>", "the end of the run");
	for (auto& c : g_cl) c.h.clear();
}

// ----------------------------------------------------------------- plan generators
struct BG {
	Rng& r; int c; std::vector<Step> out; int nbu = 0, ntd = 0;
	BG(Rng& rr, int cc) : r(rr), c(cc) {}
	int load(const TA& a, bool bu) { out.push_back(gen::mk(c, "bdd_load", {bu ? 1 : 0, long(r.below(2))}, mdl::to_lit(a))); return bu ? nbu++ : ntd++; }
	int any(bool bu) { int n = bu ? nbu : ntd; return n ? int(r.below(uint64_t(n))) : 0; }
	void value_ops(int k) {
		for (int i = 0; i < k; ++i) {
			bool bu = r.chance(1, 2); int& n = bu ? nbu : ntd; if (!n) continue; int h = any(bu);
			switch (r.below(8)) {
				case 7: out.push_back(gen::mk(c, "bdd_final", {h, bu, long(r.below(1000))})); break;
				case 0: case 1: case 2: out.push_back(gen::mk(c, "bdd_copy", {h, bu})); ++n; break;
				case 3: if (r.chance(1, 3)) out.push_back(gen::mk(c, "bdd_twist", {h, bu, long(r.below(100000)), long(r.below(4))})); else out.push_back(gen::mk(c, "bdd_assign", {h, any(bu), bu})); break;
				case 4: if (n > 2) { int g = any(bu); if (g != h) { out.push_back(gen::mk(c, "bdd_move_assign", {h, g, bu})); --n; } } break;
				case 5: out.push_back(gen::mk(c, "bdd_move_ctor", {h, bu})); break;
				default: if (n > 2) { out.push_back(gen::mk(c, "bdd_destroy", {h, bu})); --n; } break;
			}
		}
	}
};

std::vector<Step> foreign_bdd(Rng& r, int c, const gen::Pool& pool, int len) {
	BG g(r, c); gen::TAOpts o; o.max_states = 3;
	for (int i = 0; i < len; ++i) {
		switch (r.below(4)) {
			case 0: case 1: g.load(gen::gen_ta(r, pool, o), r.chance(1, 2)); break;
			case 2: g.value_ops(1); break;
			default: g.out.push_back(gen::mk(c, "churn", {long(r.below(100000)), long(r.range(4, 40))})); break;
		}
	}
	return g.out;
}

void finish(Plan& p, Rng& r, std::vector<std::vector<Step>>& progs, int abort_pct) {
	p.clients = int(progs.size()); p.steps = gen::interleave(r, progs, int(r.below(3)));
	if (abort_pct > 0 && p.clients > 1 && int(r.below(100)) < abort_pct && p.steps.size() > 4) {
		int victim = int(r.below(uint64_t(p.clients))); size_t at = size_t(r.range(2, int(p.steps.size()) - 1));
		p.steps.insert(p.steps.begin() + long(at), gen::mk(victim, "abort", {victim, long(r.below(100000))}));
	}
}

} // namespace

namespace vsim {

Plan plan_C07(Rng& r, const std::string&) {
	Plan p; p.env = gen::gen_env(r); gen::Pool pool = gen::make_pool(r, r.chance(1, 3) ? 7 : 5, 2);
	int ncl = r.range(1, 3); std::vector<std::vector<Step>> progs;
	for (int c = 0; c < ncl; ++c) {
		if (c > 0 && r.chance(2, 3)) { progs.push_back(foreign_bdd(r, c, pool, r.range(1, 4))); continue; }
		BG g(r, c); int ep = r.range(1, 3);
		for (int e = 0; e < ep; ++e) {
			TA A, B;
			if (r.chance(1, 4)) A = r.chance(1, 2) ? gen::wide_pair_smaller(r, B) : gen::repeat_pair_smaller(r, B);      // child positions with several macro-states
			else if (r.chance(1, 5)) gen::monadic_pair(r, A, B);
			else gen::gen_incl_pair(r, pool, r.range(1, 5), false, A, B);
			if (r.chance(1, 2)) gen::permute_syms(r, A, B);      // symbol codes (= registration order = order of names in the Ops line) decide the order in which the MTBDD traversals visit the rules
			// the same pair in both encodings
			int abu = g.load(A, true), bbu = g.load(B, true), atd = g.load(A, false), btd = g.load(B, false);
			if (r.chance(1, 5)) g.out.push_back(cli_step(r, c, 1 + long(r.below(2)), 3, mdl::to_lit(A), mdl::to_lit(B)));      // vata -r bdd-td|bdd-bu incl
			if (r.chance(1, 4)) g.value_ops(1);
			if (r.chance(1, 4)) g.out.push_back(gen::mk(c, "churn", {long(r.below(100000)), long(r.range(4, 40))}));
			int k = r.range(5, 10);
			for (int i = 0; i < k; ++i) {
				bool bu = r.chance(2, 5); long sel;
				if (bu) sel = r.below(100) < 88 ? (r.chance(1, 2) ? 0 : 5) : long(r.below(N_SEL));
				else sel = r.below(100) < 90 ? 4 + long(r.below(4)) : long(r.below(N_SEL));
				g.out.push_back(gen::mk(c, "bdd_incl", {bu ? abu : atd, bu ? bbu : btd, sel, bu, long(bu && r.chance(1, 10) ? 2 : r.below(2))}));
			}
			if (r.chance(1, 5)) {
				// the two operands SHARE one transition table and differ in their final states only: a copy whose final set is changed
				bool bu = r.chance(1, 2); int& n = bu ? g.nbu : g.ntd; int orig = r.chance(1, 2) ? (bu ? abu : atd) : (bu ? bbu : btd), x = n;
				g.out.push_back(gen::mk(c, "bdd_copy", {orig, bu})); ++n;
				g.out.push_back(gen::mk(c, "bdd_final", {x, bu, long(r.below(1000))})); if (r.chance(1, 3)) g.out.push_back(gen::mk(c, "bdd_final", {x, bu, long(r.below(1000))}));
				for (int i = 0; i < 2; ++i) {
					long sel = bu ? (r.chance(2, 3) ? 0 : 5) : 4 + long(r.below(4));
					g.out.push_back(gen::mk(c, "bdd_incl", {i ? orig : x, i ? x : orig, sel, bu, long(r.below(2))}));
				}
			}
			if (r.chance(1, 5)) {
				// an operand that is the RESULT of an earlier operation (union, intersection, trimming, conversion), not a freshly loaded automaton
				bool bu = r.chance(1, 2); int& n = bu ? g.nbu : g.ntd; int pa = bu ? abu : atd, pb = bu ? bbu : btd, x = n;
				switch (r.below(4)) {
					case 0: g.out.push_back(gen::mk(c, "bdd_binary", {pa, pb, 0, bu, long(r.below(2))})); break;
					case 1: g.out.push_back(gen::mk(c, "bdd_binary", {pa, pb, 2, bu, long(r.below(2))})); break;
					case 2: g.out.push_back(gen::mk(c, "bdd_trim", {r.chance(1, 2) ? pa : pb, long(r.below(2)), bu})); break;
					default: if (!bu) { g.out.push_back(gen::mk(c, "bdd_to_td", {r.chance(1, 2) ? abu : bbu})); } else g.out.push_back(gen::mk(c, "bdd_trim", {pb, 1, bu})); break;
				}
				++n;
				long sel = bu ? (r.chance(1, 2) ? 0 : 5) : 4 + long(r.below(4));
				g.out.push_back(gen::mk(c, "bdd_incl", {x, r.chance(1, 2) ? pb : pa, sel, bu, long(r.below(2))}));
				g.out.push_back(gen::mk(c, "bdd_incl", {r.chance(1, 2) ? pa : pb, x, bu ? (r.chance(1, 2) ? 0 : 5) : 4 + long(r.below(4)), bu, long(r.below(2))}));
			}
			if (r.chance(1, 5)) g.out.push_back(sym_episode_step(r, c, pool, r.range(1, 4)));      // the same questions on automata whose symbols are sets of codes (patterns with don't-cares)
			if (r.chance(1, 5)) {
				// one operand OBJECT gets another value (a near relative is copy-assigned over it) and the question is asked again
				bool bu = r.chance(1, 2); long sel = bu ? (r.chance(1, 2) ? 0 : 5) : 4 + long(r.below(4));
				g.out.push_back(gen::mk(c, "bdd_twist", {r.chance(1, 2) ? (bu ? abu : atd) : (bu ? bbu : btd), bu, long(r.below(100000)), long(r.below(4))}));
				g.out.push_back(gen::mk(c, "bdd_incl", {bu ? abu : atd, bu ? bbu : btd, sel, bu, long(r.below(2))}));
			}
		}
		progs.push_back(g.out);
	}
	finish(p, r, progs, 10);
	return p;
}

// a short history of BDD automata of one client (used by C13: what is dumped after operations must come back)
std::vector<Step> bdd_history_program(Rng& r, int c, const gen::Pool& pool, int len) {
	BG g(r, c); gen::TAOpts o; o.max_states = r.range(1, 4);
	g.load(gen::gen_ta(r, pool, o), true); g.load(gen::gen_ta(r, pool, o), false);
	for (int i = 0; i < len; ++i) {
		uint64_t x = r.below(100); bool bu = r.chance(1, 2); int& n = bu ? g.nbu : g.ntd;
		if (x < 20) g.load(gen::gen_ta(r, pool, o), bu);
		else if (x < 35) g.value_ops(1);
		else if (x < 70) { if (n) { g.out.push_back(gen::mk(c, "bdd_binary", {g.any(bu), g.any(bu), long(r.below(3)), bu, long(r.below(2))})); ++n; } }
		else if (x < 85) { if (n) { g.out.push_back(gen::mk(c, "bdd_trim", {g.any(bu), long(r.below(2)), bu})); ++n; } }
		else if (x < 93) { if (g.nbu) { g.out.push_back(gen::mk(c, "bdd_to_td", {g.any(true)})); ++g.ntd; } }
		else { if (n) { g.out.push_back(gen::mk(c, "bdd_reindex", {g.any(bu), bu, long(r.below(100000))})); ++n; } }
	}
	int k = r.range(2, 5);
	for (int i = 0; i < k; ++i) g.out.push_back(gen::mk(c, "bdd_dump", {long(r.below(16)), long(r.below(2))}));
	return g.out;
}

Plan plan_C08(Rng& r, const std::string&) {
	Plan p; p.env = gen::gen_env(r); gen::Pool pool = gen::make_pool(r, 5, r.chance(1, 8) ? 3 : 2);
	int ncl = r.range(1, 3); std::vector<std::vector<Step>> progs;
	for (int c = 0; c < ncl; ++c) {
		if (c > 0 && r.chance(1, 2)) { progs.push_back(foreign_bdd(r, c, pool, r.range(2, 8))); continue; }
		BG g(r, c); int len = r.range(5, 16);
		gen::TAOpts o; o.max_states = r.range(1, 5);
		g.load(gen::gen_ta(r, pool, o), true); g.load(gen::gen_ta(r, pool, o), false);
		if (r.chance(1, 3)) {
			// "diamond": two results derived from one base (they share its transition table when the library
			// reuses it: union of sharing operands, UnionDisjointStates into the left operand's table, copies
			// whose final sets were changed), then combined with each other and with the base
			bool bu = r.chance(1, 2); int& n = bu ? g.nbu : g.ntd; o.sparse = false;
			TA A = gen::gen_ta(r, pool, o), B = r.chance(1, 2) ? gen::derive_ta(r, pool, A, int(r.below(7))) : gen::gen_ta(r, pool, o), C = r.chance(1, 2) ? gen::derive_ta(r, pool, B, int(r.below(7))) : gen::gen_ta(r, pool, o);
			int a = g.load(A, bu), x, y;
			if (r.chance(1, 3)) {
				// copies of the base with other final states
				x = n; g.out.push_back(gen::mk(c, "bdd_copy", {a, bu})); ++n; g.out.push_back(gen::mk(c, "bdd_final", {x, bu, long(r.below(1000))}));
				y = n; g.out.push_back(gen::mk(c, "bdd_copy", {a, bu})); ++n; g.out.push_back(gen::mk(c, "bdd_final", {y, bu, long(r.below(1000))}));
			} else {
				int b = g.load(B, bu), cc = g.load(C, bu);
				x = n; g.out.push_back(gen::mk(c, "bdd_binary", {a, b, long(r.below(2)), bu, long(r.below(2))})); ++n;
				y = n; g.out.push_back(gen::mk(c, "bdd_binary", {a, cc, long(r.below(2)), bu, long(r.below(2))})); ++n;
			}
			int k = r.range(1, 3);
			for (int i = 0; i < k; ++i) {
				int l = r.chance(1, 2) ? x : y, rr = r.chance(1, 4) ? a : (l == x ? y : x);
				g.out.push_back(gen::mk(c, "bdd_binary", {l, rr, long(r.chance(2, 3) ? 2 : r.below(2)), bu, long(r.below(2))})); ++n;
			}
		}
		if (r.chance(1, 4)) {
			// "accumulator": acc = copy of A; u = acc op B (a result that shares acc's table where the library reuses it); acc = u (copy
			// assignment from a named object onto a relative that already shares its table); again with the next operand
			bool bu = r.chance(2, 3); int& n = bu ? g.nbu : g.ntd; o.sparse = false;
			int a = g.load(gen::gen_ta(r, pool, o), bu); int acc = n; g.out.push_back(gen::mk(c, "bdd_copy", {a, bu})); ++n;
			int rounds = r.range(1, 3);
			for (int i = 0; i < rounds; ++i) {
				int b = g.load(gen::gen_ta(r, pool, o), bu); int u = n;
				g.out.push_back(gen::mk(c, "bdd_binary", {acc, b, long(r.chance(1, 6) ? 2 : r.below(2)), bu, long(r.below(2))})); ++n;
				g.out.push_back(gen::mk(c, "bdd_assign", {acc, u, bu}));
				if (r.chance(1, 3)) { g.out.push_back(gen::mk(c, "bdd_destroy", {u, bu})); --n; }
			}
		}
		if (r.chance(1, 3)) g.out.push_back(cli_step(r, c, 1 + long(r.below(2)), long(r.below(3)), mdl::to_lit(gen::gen_ta(r, pool, o)), mdl::to_lit(gen::gen_ta(r, pool, o))));      // vata -r bdd-.. load|union|isect [-p|-s]
		if (r.chance(1, 4)) { int k = r.range(1, 2); for (int i = 0; i < k; ++i) g.out.push_back(sym_episode_step(r, c, pool, r.range(1, 4))); }      // symbolic mode: patterns with don't-cares
		for (int i = 0; i < len; ++i) {
			uint64_t x = r.below(100); bool bu = r.chance(1, 2);
			if (x < 15) { o.sparse = false; g.load(gen::gen_ta(r, pool, o), bu); }
			else if (x < 40) g.value_ops(1);
			else if (x < 70) { int& n = bu ? g.nbu : g.ntd; if (n) { g.out.push_back(gen::mk(c, "bdd_binary", {g.any(bu), g.any(bu), long(r.below(3)), bu, long(r.below(2))})); ++n; } }
			else if (x < 85) { int& n = bu ? g.nbu : g.ntd; if (n) { g.out.push_back(gen::mk(c, "bdd_trim", {g.any(bu), long(r.below(2)), bu})); ++n; } }
			else if (x < 92) { if (g.nbu) { g.out.push_back(gen::mk(c, "bdd_to_td", {g.any(true)})); ++g.ntd; } }
			else if (x < 96) { int& n = bu ? g.nbu : g.ntd; if (n) { g.out.push_back(gen::mk(c, "bdd_reindex", {g.any(bu), bu, long(r.below(100000))})); ++n; } }
			else g.out.push_back(gen::mk(c, "churn", {long(r.below(100000)), long(r.range(4, 40))}));
		}
		progs.push_back(g.out);
	}
	finish(p, r, progs, 15);
	return p;
}

void register_bdd_ops() {
	register_op("bdd_load", op_load); register_op("bdd_copy", op_copy); register_op("bdd_assign", op_assign); register_op("bdd_twist", op_twist); register_op("bdd_sym_episode", op_sym_episode);
	register_op("bdd_move_assign", op_move_assign); register_op("bdd_move_ctor", op_move_ctor); register_op("bdd_destroy", op_destroy); register_op("bdd_final", op_final); register_op("bdd_dump", op_dump);
	register_op("bdd_binary", op_binary); register_op("bdd_trim", op_trim); register_op("bdd_to_td", op_to_td); register_op("bdd_reindex", op_reindex);
	register_op("bdd_incl", op_incl);
	register_abort_hook(abort_client); register_final_hook(final_check);
	register_integrity_hook([](const std::string& oracle, const std::string& site) { check_all(oracle, site, "an unrelated call"); });
}

} // namespace vsim
