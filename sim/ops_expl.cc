// Steps over ExplicitTreeAut: one real API call (or one fixed client protocol
// taken from cli/operations.hh) plus the oracle of the running profile.
#include "world.hh"
#include "gen.hh"

#include <vata/vata.hh>
#include <vata/explicit_tree_aut.hh>
#include <vata/parsing/timbuk_parser.hh>
#include <vata/serialization/timbuk_serializer.hh>
#include <vata/util/binary_relation.hh>

#include "operations.hh"   // the CLI's own inclusion / simulation protocol (defines a global: include once)

#include <sstream>
#include <algorithm>
#include <memory>

using namespace vsim;
using mdl::TA; using mdl::Rule;
typedef VATA::ExplicitTreeAut ET;
typedef VATA::AutBase::StateType StateType;
typedef VATA::AutBase::StateToStateMap StateMap;

namespace {

struct ETH {
	std::unique_ptr<ET> aut;
	TA model;
	int alpha = 0;
	uint64_t origin = 0;      // provenance tag (who was copied / derived from whom)
};

struct IterH {
	int kind = 0;                      // 0 whole automaton, 1 accepting rules, 2 rules of one parent
	const ET* aut = nullptr;           // the viewed automaton (owned by a handle of the same client)
	std::unique_ptr<ET::Iterator> it, end;
	std::unique_ptr<ET::AcceptTrans> acc; std::unique_ptr<ET::AcceptTrans::Iterator> ait, aend;
	std::unique_ptr<ET::DownAccessor> down; std::unique_ptr<ET::DownAccessor::Iterator> dit, dend;
	std::multiset<Rule> yielded; std::set<Rule> expect; int alpha = 0; bool done = false;
	void reset() { it.reset(); end.reset(); ait.reset(); aend.reset(); acc.reset(); dit.reset(); dend.reset(); down.reset(); }
};

struct Client { std::vector<ETH> et; std::vector<IterH> iters; VATA::AutBase::StateToStateMap trim_map; /* a translation map the client keeps and hands to one trimming call after the other */ VATA::AutBase::StateToStateMap reindex_map; StateType reindex_cnt = 0; /* one renaming shared by consecutive ReindexStates calls (weak translator over a kept map and counter, as Union does internally) */ };

std::vector<Client> g_clients;
std::vector<ET::AlphabetType> g_alphas;          // index 0 unused (= library default / global alphabet)
std::vector<mdl::Alphabet> g_alpha_model;        // what this run registered in each alphabet
uint64_t g_origin_ctr = 0;

struct Decided { std::string what; long sel; long via; TA a, b; int alpha; int result; TA res; };
std::vector<Decided> g_decided;
void record_result(const std::string& what, const TA& ma, const TA* mb, int alpha, const TA& res);

inline long mod(long v, size_t n) { long m = long(n); long r = v % m; return r < 0 ? r + m : r; }

Client& CL(const Step& s) {
	if (g_clients.size() < size_t(g_nclients)) g_clients.resize(size_t(g_nclients));
	return g_clients[size_t(mod(s.client, size_t(g_nclients)))];
}
ETH& H(const Step& s, size_t argi) {
	auto& v = CL(s).et; if (v.empty()) throw Skip();
	return v[size_t(mod(s.arg(argi), v.size()))];
}
size_t HI(const Step& s, size_t argi) {
	auto& v = CL(s).et; if (v.empty()) throw Skip();
	return size_t(mod(s.arg(argi), v.size()));
}

ET::AlphabetType& alpha_obj(int a) {
	while (g_alphas.size() <= size_t(a)) g_alphas.push_back(ET::AlphabetType(new ET::OnTheFlyAlphabet()));
	return g_alphas[size_t(a)];
}
mdl::Alphabet& alpha_model(int a) {
	if (g_alpha_model.size() <= size_t(a)) g_alpha_model.resize(size_t(a) + 1);
	return g_alpha_model[size_t(a)];
}

// Names starting with 'm' are the C12 "one symbol number, several arities"
// symbols: they are always registered with rank 0 and that one number is used
// with tuples of every length.
ET::SymbolType sym_num(const ET& aut, int alpha, const std::string& name, size_t rank) {
	if (!name.empty() && name[0] == 'm') rank = 0;
	auto tr = aut.GetAlphabet()->GetSymbolTransl();
	alpha_model(alpha).insert(mdl::Sym(name, int(rank)));
	return (*tr)(ET::StringRank(name, rank));
}

std::string sym_name(const ET& aut, ET::SymbolType n) {
	auto bt = aut.GetAlphabet()->GetSymbolBackTransl();
	return (*bt)(n).symbolStr;
}

Rule to_rule(const ET& aut, const ET::Transition& t, ET::AbstractAlphabet::BwdTranslator* bt = nullptr) {
	Rule r; r.parent = long(t.GetParent());
	if (bt) r.sym = (*bt)(t.GetSymbol()).symbolStr; else r.sym = sym_name(aut, t.GetSymbol());
	for (StateType c : t.GetChildren()) r.ch.push_back(long(c));
	return r;
}

// read an automaton back through range-for and GetFinalStates
TA read_back(const ET& aut, bool* dup = nullptr) {
	TA m; auto bt = aut.GetAlphabet()->GetSymbolBackTransl();
	for (const ET::Transition& t : aut) {
		Rule r = to_rule(aut, t, bt.get());
		if (!m.rules.insert(r).second && dup) *dup = true;
	}
	for (StateType f : aut.GetFinalStates()) m.finals.insert(long(f));
	return m;
}

ET::Transition to_trans(const ET& aut, int alpha, const Rule& r) {
	ET::StateTuple ch; for (long c : r.ch) ch.push_back(StateType(c));
	return ET::Transition(StateType(r.parent), sym_num(aut, alpha, r.sym, r.ch.size()), ch);
}

std::string hsite(const Step& s) { return s.op; }

// every live handle of every client must still equal its model
void check_all_handles(const std::string& oracle, const std::string& site, const std::string& after) {
	api_end();
	for (size_t c = 0; c < g_clients.size(); ++c)
		for (size_t i = 0; i < g_clients[c].et.size(); ++i) {
			ETH& h = g_clients[c].et[i];
			bool dup = false; TA got = read_back(*h.aut, &dup);
			count(c_reread_handles);
			if (dup) violation(oracle, site, "iteration yields a rule twice (client " + std::to_string(c) + " handle " + std::to_string(i) + ") after " + after);
			if (got != h.model)
				violation(oracle, site, "client " + std::to_string(c) + " handle " + std::to_string(i) + " differs from its model after " + after + ":" + mdl::diff(h.model, got)
					+ "\n  model: " + mdl::to_lit(h.model) + "\n  read : " + mdl::to_lit(got));
		}
}

// every live handle still denotes the language of its model (used by the properties that do not speak about
// representation: a handle whose rule set changed but whose language did not is not their business)
void check_all_languages(const std::string& oracle, const std::string& site, const std::string& after) {
	api_end();
	for (size_t c = 0; c < g_clients.size(); ++c)
		for (size_t i = 0; i < g_clients[c].et.size(); ++i) {
			ETH& h = g_clients[c].et[i]; TA got = read_back(*h.aut); count(c_reread_handles);
			if (got == h.model) continue;
			int e = mdl::equiv(got, h.model, 6000);
			if (e == 0) violation(oracle, site, "client " + std::to_string(c) + " handle " + std::to_string(i) + " no longer denotes its language after " + after + ":" + mdl::diff(h.model, got)
				+ "\n  model: " + mdl::to_lit(h.model) + "\n  read : " + mdl::to_lit(got));
		}
}

void after_mutation(const Step& s, const std::string& what) {
	api_end();
	if (armed("C11")) {
		count(c_oracle_evals); check_all_handles("C11.handle-equals-model", hsite(s), what);
		// non-trivial: the world holds handles that share storage (same provenance) while one of them was touched
		std::map<uint64_t, int> groups; uint64_t h = hash_str(what);
		for (auto& c : g_clients) for (auto& e : c.et) { ++groups[e.origin]; h = mix64(h, e.model.hash()); }
		bool sharing = false; for (auto& g : groups) if (g.second > 1) sharing = true;
		if (sharing) note_case(h);
	}
}

void drop_iters_of(Client& c, const ET* aut) {
	for (size_t i = 0; i < c.iters.size();) {
		if (c.iters[i].aut == aut) { c.iters[i].reset(); c.iters.erase(c.iters.begin() + long(i)); } else ++i;
	}
}

ETH& add_handle(Client& c, ET&& aut, const TA& model, int alpha, uint64_t origin = 0) {
	ETH h; h.aut.reset(new ET(std::move(aut))); h.model = model; h.alpha = alpha; h.origin = origin ? origin : ++g_origin_ctr;
	c.et.push_back(std::move(h)); count(c_handles_created);
	return c.et.back();
}

// The value of a freshly returned automaton is what can be read from it at
// return time; C11 then requires it to stay that value.
ETH& add_result(const Step& s, ET&& aut, int alpha, uint64_t origin = 0) {
	api_end();
	// several operations return their result with the process-wide default alphabet whatever the operand's
	// was; a client that uses its own alphabet re-attaches it before it reads symbol names
	if (alpha > 0) aut.SetAlphabet(alpha_obj(alpha));
	TA got = read_back(aut);
	observe(got.hash());      // concrete result (state numbers included): must not depend on memory noise
	return add_handle(CL(s), std::move(aut), got, alpha, origin);
}

void note_ta_case(const TA& a, const TA* b = nullptr, uint64_t extra = 0) {
	uint64_t h = a.hash(); if (b) h = mix64(h, b->hash()); note_case(mix64(h, extra));
}

// ----------------------------------------------------------------- construction

void op_new(const Step& s) {
	int alpha = int(s.arg(0));
	api_begin();
	ET a; if (alpha > 0) a.SetAlphabet(alpha_obj(alpha));
	add_handle(CL(s), std::move(a), TA(), alpha);
	after_mutation(s, "et_new");
}

void load_into(ET& aut, int alpha, const TA& lit, long flags, TA& model_out) {
	VATA::Parsing::TimbukParser parser;
	VATA::AutBase::StateDict dict;
	std::string text = mdl::to_timbuk(lit, "q", nullptr, (flags & 1) != 0);
	if (alpha > 0) aut.SetAlphabet(alpha_obj(alpha));
	for (const mdl::Sym& y : lit.symbols()) alpha_model(alpha).insert(y);
	api_begin();
	aut.LoadFromString(parser, text, dict);
	std::map<long, long> m;
	for (long q : lit.states()) {
		auto it = dict.FindFwd("q" + std::to_string(q));
		if (it == dict.EndFwd()) violation(g_profile + ".load-dict", "et_load", "state q" + std::to_string(q) + " missing from the state dictionary after LoadFromString");
		else m[q] = long(it->second);
	}
	model_out = mdl::rename(lit, m);
}

void op_load(const Step& s) {
	TA lit = mdl::from_lit(s.lit); int alpha = int(s.arg(0));
	ET a; TA model;
	load_into(a, alpha, lit, s.arg(1), model);
	api_end();
	if (armed("C11") || armed("C13") || armed("C12")) {
		TA got = read_back(a); count(c_oracle_evals);
		if (got != model) violation(g_profile + ".load-equals-description", "et_load", "loaded automaton differs from the text:" + mdl::diff(model, got));
	}
	add_handle(CL(s), std::move(a), model, alpha);
	after_mutation(s, "et_load");
}

void op_build(const Step& s) {
	TA lit = mdl::from_lit(s.lit); int alpha = int(s.arg(0)); Rng r(uint64_t(s.arg(1)) + 17);
	ET a; if (alpha > 0) a.SetAlphabet(alpha_obj(alpha));
	std::vector<Rule> rules(lit.rules.begin(), lit.rules.end());
	for (size_t i = rules.size(); i > 1; --i) std::swap(rules[i - 1], rules[r.below(i)]);
	std::vector<long> fin(lit.finals.begin(), lit.finals.end());
	for (size_t i = fin.size(); i > 1; --i) std::swap(fin[i - 1], fin[r.below(i)]);
	size_t fi = 0;
	api_begin();
	for (const Rule& x : rules) {
		if (fi < fin.size() && r.chance(1, 3)) a.SetStateFinal(StateType(fin[fi++]));
		ET::StateTuple ch; for (long c : x.ch) ch.push_back(StateType(c));
		if (r.chance(1, 2)) a.AddTransition(ch, sym_num(a, alpha, x.sym, x.ch.size()), StateType(x.parent));
		else a.AddTransition(to_trans(a, alpha, x));
	}
	for (; fi < fin.size(); ++fi) a.SetStateFinal(StateType(fin[fi]));
	add_handle(CL(s), std::move(a), lit, alpha);
	after_mutation(s, "et_build");
}

void op_copy(const Step& s) {
	ETH& h = H(s, 0);
	api_begin();
	ET c(*h.aut);
	count(c_handles_shared);
	add_handle(CL(s), std::move(c), h.model, h.alpha, h.origin);
	after_mutation(s, "et_copy");
}

void op_copy_partial(const Step& s) {   // copy constructor with copyTrans / copyFinal flags
	ETH& h = H(s, 0); bool ct = s.arg(1) & 1, cf = s.arg(1) & 2;
	api_begin();
	ET c(*h.aut, ct, cf);
	TA m; if (ct) m.rules = h.model.rules; if (cf) m.finals = h.model.finals;
	add_handle(CL(s), std::move(c), m, h.alpha, h.origin);
	after_mutation(s, "et_copy_partial");
}

void op_assign(const Step& s) {
	size_t i = HI(s, 0), j = HI(s, 1); Client& c = CL(s);
	drop_iters_of(c, c.et[i].aut.get());
	api_begin();
	*c.et[i].aut = *c.et[j].aut;       // includes self-assignment when i == j
	c.et[i].model = c.et[j].model; c.et[i].alpha = c.et[j].alpha; c.et[i].origin = c.et[j].origin;
	count(c_handles_shared);
	after_mutation(s, "et_assign");
}

void op_move_assign(const Step& s) {
	size_t i = HI(s, 0), j = HI(s, 1); Client& c = CL(s);
	if (i == j) throw Skip();
	drop_iters_of(c, c.et[i].aut.get()); drop_iters_of(c, c.et[j].aut.get());
	api_begin();
	*c.et[i].aut = std::move(*c.et[j].aut);
	c.et[i].model = c.et[j].model; c.et[i].alpha = c.et[j].alpha; c.et[i].origin = c.et[j].origin;
	c.et.erase(c.et.begin() + long(j));    // the moved-from object is only destroyed
	count(c_handles_destroyed);
	after_mutation(s, "et_move_assign");
}

void op_move_ctor(const Step& s) {
	size_t i = HI(s, 0); Client& c = CL(s);
	drop_iters_of(c, c.et[i].aut.get());
	api_begin();
	ET n(std::move(*c.et[i].aut));
	TA m = c.et[i].model; int al = c.et[i].alpha; uint64_t og = c.et[i].origin;
	c.et.erase(c.et.begin() + long(i)); count(c_handles_destroyed);
	add_handle(c, std::move(n), m, al, og);
	after_mutation(s, "et_move_ctor");
}

void op_destroy(const Step& s) {
	size_t i = HI(s, 0); Client& c = CL(s);
	drop_iters_of(c, c.et[i].aut.get());
	api_begin();
	c.et.erase(c.et.begin() + long(i));
	count(c_handles_destroyed);
	after_mutation(s, "et_destroy");
}

void op_give(const Step& s) {
	ETH& h = H(s, 0); size_t to = size_t(mod(s.arg(1), size_t(g_nclients)));
	if (g_clients.size() < size_t(g_nclients)) g_clients.resize(size_t(g_nclients));
	api_begin();
	ET c(*h.aut);
	TA m = h.model; int al = h.alpha; uint64_t og = h.origin;
	add_handle(g_clients[to], std::move(c), m, al, og);
	count(c_handles_shared);
	after_mutation(s, "et_give");
}

// ----------------------------------------------------------------- mutators
bool is_shared(const Client&, const ETH& h) {
	int n = 0;
	for (auto& c : g_clients) for (auto& o : c.et) if (o.origin == h.origin) ++n;
	return n > 1;
}

void op_add(const Step& s) {
	ETH& h = H(s, 0); TA lit = mdl::from_lit(s.lit); if (lit.rules.empty()) throw Skip();
	drop_iters_of(CL(s), h.aut.get());
	if (is_shared(CL(s), h)) count(c_cow_writes_on_shared);
	for (const Rule& r : lit.rules) {
		ET::StateTuple ch; for (long c : r.ch) ch.push_back(StateType(c));
		ET::SymbolType sy = sym_num(*h.aut, h.alpha, r.sym, r.ch.size());
		api_begin();
		if (s.arg(1) & 1) h.aut->AddTransition(ET::Transition(StateType(r.parent), sy, ch));
		else h.aut->AddTransition(ch, sy, StateType(r.parent));
		h.model.rules.insert(r);
	}
	after_mutation(s, "et_add");
}

// CopyTransitionsFrom: the rules of another automaton that satisfy a client predicate are added to this one
void op_copy_from(const Step& s) {
	size_t i = HI(s, 0), j = HI(s, 1); Client& c = CL(s); if (i == j) throw Skip();
	ETH& h = c.et[i]; ETH& src = c.et[j];
	if (h.alpha != src.alpha) throw Skip();                     // symbol numbers are copied as they are
	drop_iters_of(c, h.aut.get());
	if (is_shared(c, h)) count(c_cow_writes_on_shared);
	struct Pred : ET::AbstractCopyF { uint64_t salt; long mode; virtual bool operator()(const ET::Transition& t) { if (mode == 0) return true; if (mode == 1) return t.GetChildren().empty(); return (mix64(uint64_t(t.GetParent()) * 31 + t.GetChildren().size(), salt) & 1) != 0; } } pred;
	pred.salt = uint64_t(s.arg(2)); pred.mode = mod(s.arg(3), 3);
	TA add;
	for (const Rule& r : src.model.rules) { bool take = pred.mode == 0 ? true : (pred.mode == 1 ? r.ch.empty() : (mix64(uint64_t(r.parent) * 31 + r.ch.size(), pred.salt) & 1) != 0); if (take) add.rules.insert(r); }
	api_begin();
	h.aut->CopyTransitionsFrom(*src.aut, pred);
	h.model.rules.insert(add.rules.begin(), add.rules.end());
	after_mutation(s, "et_copy_from");
}

void op_final(const Step& s) {
	ETH& h = H(s, 0);
	drop_iters_of(CL(s), h.aut.get());
	if (is_shared(CL(s), h)) count(c_cow_writes_on_shared);
	api_begin();
	h.aut->SetStateFinal(StateType(s.arg(1)));
	h.model.finals.insert(s.arg(1));
	api_end();
	if (armed("C12")) { count(c_oracle_evals); if (!h.aut->IsStateFinal(StateType(s.arg(1)))) violation("C12.final-states", "et_final", "IsStateFinal false right after SetStateFinal"); }
	after_mutation(s, "et_final");
}

void op_finals(const Step& s) {
	ETH& h = H(s, 0); TA lit = mdl::from_lit(s.lit);
	drop_iters_of(CL(s), h.aut.get());
	std::set<StateType> st; for (long f : lit.finals) st.insert(StateType(f));
	api_begin();
	h.aut->SetStatesFinal(st);
	h.model.finals.insert(lit.finals.begin(), lit.finals.end());
	after_mutation(s, "et_finals");
}

void op_erase_finals(const Step& s) {
	ETH& h = H(s, 0);
	drop_iters_of(CL(s), h.aut.get());
	if (is_shared(CL(s), h)) count(c_cow_writes_on_shared);
	api_begin();
	h.aut->EraseFinalStates();
	h.model.finals.clear();
	after_mutation(s, "et_erase_finals");
}

void op_clear(const Step& s) {
	ETH& h = H(s, 0);
	drop_iters_of(CL(s), h.aut.get());
	if (is_shared(CL(s), h)) count(c_cow_writes_on_shared);
	api_begin();
	h.aut->Clear();
	h.model = TA();
	after_mutation(s, "et_clear");
}

// ----------------------------------------------------------------- views (C12)
void finish_iter(IterH& it, const std::string& site) {
	api_end();
	it.done = true; if (!armed("C12")) return; count(c_oracle_evals);
	std::set<Rule> seen;
	for (const Rule& r : it.yielded) {
		if (!seen.insert(r).second) { TA t; t.rules.insert(r); violation("C12.view-yields-each-rule-once", site, "rule yielded twice:" + mdl::to_lit(t).substr(1)); }
	}
	if (seen != it.expect) {
		TA e, g; e.rules = it.expect; g.rules = seen;
		violation("C12.view-equals-model", site, "view kind " + std::to_string(it.kind) + " differs from the model:" + mdl::diff(e, g));
	}
	uint64_t h = 99 + uint64_t(it.kind); for (const Rule& r : seen) { TA t; t.rules.insert(r); h = mix64(h, t.hash()); }
	if (!seen.empty()) note_case(h);
}

void op_it_begin(const Step& s) {
	ETH& h = H(s, 0); Client& c = CL(s); IterH it; it.kind = int(mod(s.arg(1), 3)); it.aut = h.aut.get(); it.alpha = h.alpha;
	api_begin();
	if (it.kind == 0) {
		it.it.reset(new ET::Iterator(h.aut->begin())); it.end.reset(new ET::Iterator(h.aut->end()));
		it.expect = h.model.rules;
	} else if (it.kind == 1) {
		it.acc.reset(new ET::AcceptTrans(h.aut->GetAcceptTrans()));
		it.ait.reset(new ET::AcceptTrans::Iterator(it.acc->begin())); it.aend.reset(new ET::AcceptTrans::Iterator(it.acc->end()));
		for (const Rule& r : h.model.rules) if (h.model.finals.count(r.parent)) it.expect.insert(r);
	} else {
		std::set<long> st = h.model.states(); long q;
		if (st.empty() || s.arg(3) % 5 == 0) q = s.arg(2) % 50; else { auto p = st.begin(); std::advance(p, mod(s.arg(2), st.size())); q = *p; }
		it.down.reset(new ET::DownAccessor((*h.aut)[StateType(q)]));      // GetDown() is declared but not defined in the library
		it.dit.reset(new ET::DownAccessor::Iterator(it.down->begin())); it.dend.reset(new ET::DownAccessor::Iterator(it.down->end()));
		for (const Rule& r : h.model.rules) if (r.parent == q) it.expect.insert(r);
		count(c_oracle_evals);
		if (armed("C12") && it.down->empty() != it.expect.empty()) violation("C12.view-equals-model", "it_begin:down-empty", "DownAccessor::empty() disagrees with the model for state " + std::to_string(q));
	}
	c.iters.push_back(std::move(it));
}

void op_it_next(const Step& s) {
	Client& c = CL(s); if (c.iters.empty()) throw Skip();
	IterH& it = c.iters[size_t(mod(s.arg(0), c.iters.size()))];
	if (it.done) throw Skip();
	long n = s.arg(1, 1); if (n < 1) n = 1;
	api_begin();
	for (long k = 0; k < n && !it.done; ++k) {
		count(c_iter_steps);
		// a client loop may test for the end with either comparison: both are evaluated and must be complementary
		auto at_end = [&](bool eq, bool ne, const char* site) { if (eq == ne && armed("C12")) violation("C12.iterator-comparison", site, std::string("operator== and operator!= of a view iterator both say ") + (eq ? "true" : "false") + " after " + std::to_string(it.yielded.size()) + " rules"); return ((k + s.arg(0)) & 1) ? eq : !ne; };
		if (it.kind == 0) {
			if (at_end(*it.it == *it.end, *it.it != *it.end, "it_next:all")) { finish_iter(it, "it_next:all"); break; }
			it.yielded.insert(to_rule(*it.aut, **it.it)); ++(*it.it);
		} else if (it.kind == 1) {
			if (at_end(*it.ait == *it.aend, *it.ait != *it.aend, "it_next:accept")) { finish_iter(it, "it_next:accept"); break; }
			it.yielded.insert(to_rule(*it.aut, **it.ait)); ++(*it.ait);
		} else {
			if (at_end(*it.dit == *it.dend, *it.dit != *it.dend, "it_next:down")) { finish_iter(it, "it_next:down"); break; }
			it.yielded.insert(to_rule(*it.aut, **it.dit)); ++(*it.dit);
		}
		if (it.yielded.size() > it.expect.size() + 64) { if (armed("C12")) violation("C12.view-terminates", "it_next", "view yielded far more rules than exist"); it.done = true; break; }
		if (false) violation("C12.view-terminates", "it_next", "view yielded far more rules than exist");
	}
}

// copy an iterator in mid-flight: the copy and the original continue independently and each still yields
// every rule exactly once in total (what it yielded before the copy plus what it yields afterwards)
void op_it_copy(const Step& s) {
	Client& c = CL(s); if (c.iters.empty() || c.iters.size() > 12) throw Skip();
	size_t i = size_t(mod(s.arg(0), c.iters.size()));
	if (c.iters[i].done || c.iters[i].kind == 2) throw Skip();
	IterH n; n.kind = c.iters[i].kind; n.aut = c.iters[i].aut; n.alpha = c.iters[i].alpha; n.yielded = c.iters[i].yielded; n.expect = c.iters[i].expect;
	api_begin();
	if (n.kind == 0) { n.it.reset(new ET::Iterator(*c.iters[i].it)); n.end.reset(new ET::Iterator(*c.iters[i].end)); }
	else { n.ait.reset(new ET::AcceptTrans::Iterator(*c.iters[i].ait)); n.aend.reset(new ET::AcceptTrans::Iterator(*c.iters[i].aend)); }
	c.iters.push_back(std::move(n));
}

void op_it_drop(const Step& s) {
	Client& c = CL(s); if (c.iters.empty()) throw Skip();
	size_t i = size_t(mod(s.arg(0), c.iters.size()));
	api_begin();
	c.iters[i].reset(); c.iters.erase(c.iters.begin() + long(i));
}

// all read-only observers of one handle against its model
void op_observe(const Step& s) {
	ETH& h = H(s, 0); Rng r(uint64_t(s.arg(1)) + 3);
	// the observers are C12's subject: they are judged in C12 runs only; elsewhere they are merely called (read-only calls between
	// mutations are part of the histories: AreTransitionsEmpty once un-shared storage, see DESIGN 5.1)
	const std::string P = "C12"; const bool judged = armed("C12");
	auto violation = [&](const std::string& o, const std::string& si, const std::string& d) { if (judged) vsim::violation(o, si, d); };
	api_begin();
	count(c_oracle_evals);
	bool dup = false; TA got = read_back(*h.aut, &dup);
	if (dup) violation(P + ".view-yields-each-rule-once", "et_observe:range-for", "a rule was yielded twice");
	if (got != h.model) violation(P + ".view-equals-model", "et_observe:range-for", "iteration differs from the model:" + mdl::diff(h.model, got));
	// accept transitions
	{
		std::multiset<Rule> acc; for (const ET::Transition& t : h.aut->GetAcceptTrans()) acc.insert(to_rule(*h.aut, t));
		std::set<Rule> exp; for (const Rule& x : h.model.rules) if (h.model.finals.count(x.parent)) exp.insert(x);
		std::set<Rule> as(acc.begin(), acc.end());
		if (as.size() != acc.size()) violation(P + ".view-yields-each-rule-once", "et_observe:accept", "GetAcceptTrans yields a rule twice");
		if (as != exp) { TA e, g; e.rules = exp; g.rules = as; violation(P + ".view-equals-model", "et_observe:accept", "GetAcceptTrans differs:" + mdl::diff(e, g)); }
	}
	// per-state access
	std::set<long> st = h.model.states(); st.insert(long(r.below(40)));
	for (long q : st) {
		std::multiset<Rule> dn; for (const ET::Transition& t : (*h.aut)[StateType(q)]) dn.insert(to_rule(*h.aut, t));
		std::set<Rule> exp; for (const Rule& x : h.model.rules) if (x.parent == q) exp.insert(x);
		std::set<Rule> ds(dn.begin(), dn.end());
		if (ds.size() != dn.size()) violation(P + ".view-yields-each-rule-once", "et_observe:down", "operator[] yields a rule twice");
		if (ds != exp) { TA e, g; e.rules = exp; g.rules = ds; violation(P + ".view-equals-model", "et_observe:down", "operator[](" + std::to_string(q) + ") differs:" + mdl::diff(e, g)); }
		if ((*h.aut)[StateType(q)].empty() != exp.empty()) violation(P + ".view-equals-model", "et_observe:down-empty", "GetDown(q).empty() wrong for " + std::to_string(q));
		if (h.aut->IsStateFinal(StateType(q)) != (h.model.finals.count(q) > 0)) violation(P + ".final-states", "et_observe:is-final", "IsStateFinal(" + std::to_string(q) + ") wrong");
	}
	// ContainsTransition: every model rule, and perturbed non-rules
	for (const Rule& x : h.model.rules) {
		if (!h.aut->ContainsTransition(to_trans(*h.aut, h.alpha, x))) { TA t; t.rules.insert(x); violation(P + ".contains-transition", "et_observe:contains", "ContainsTransition false for a present rule" + mdl::to_lit(t).substr(1)); }
		Rule y = x;
		switch (r.below(3)) { case 0: y.parent += 1 + long(r.below(3)); break; case 1: if (!y.ch.empty()) y.ch[r.below(y.ch.size())] += 1 + long(r.below(3)); else y.parent += 7; break; default: y.ch.push_back(long(r.below(4))); }
		bool want = h.model.rules.count(y) > 0;
		ET::StateTuple ch; for (long c : y.ch) ch.push_back(StateType(c));
		// y keeps x's symbol NUMBER (which may have another rank): ContainsTransition is about numbers
		ET::SymbolType sy = sym_num(*h.aut, h.alpha, x.sym, x.ch.size());
		bool model_has = false;
		for (const Rule& z : h.model.rules) if (z.parent == y.parent && z.ch == y.ch && sym_num(*h.aut, h.alpha, z.sym, z.ch.size()) == sy) model_has = true;
		(void)want;
		if (h.aut->ContainsTransition(ch, sy, StateType(y.parent)) != model_has) { TA t; t.rules.insert(y); violation(P + ".contains-transition", "et_observe:contains-neg", "ContainsTransition wrong for" + mdl::to_lit(t).substr(1)); }
	}
	// used states, final states, emptiness
	{
		std::set<long> used; for (size_t q : h.aut->GetUsedStates()) used.insert(long(q));
		if (used != h.model.states()) violation(P + ".used-states", "et_observe:used-states", "GetUsedStates differs from the states occurring in rules or the final set");
		std::set<long> fin; for (StateType f : h.aut->GetFinalStates()) fin.insert(long(f));
		if (fin != h.model.finals) violation(P + ".final-states", "et_observe:finals", "GetFinalStates differs from the model");
		if (h.aut->AreTransitionsEmpty() != h.model.rules.empty()) violation(P + ".transitions-empty", "et_observe:trans-empty", "AreTransitionsEmpty wrong");
	}
	if (!h.model.rules.empty()) note_ta_case(h.model, nullptr, 1);
}

// ----------------------------------------------------------------- operations
bool same_alpha(const ETH& a, const ETH& b) { return a.alpha == b.alpha; }

void check_operands_unchanged(const Step& s, ETH& a, ETH* b, const std::string& P) {
	api_end();
	count(c_operand_rechecks);
	// C02 states that the operands are left unchanged (rule for rule).  The other properties only make sense if an
	// operand still denotes the language it was called with: that is what is demanded there.  (C11 judges values.)
	auto chk = [&](ETH& h, const char* which) {
		TA g = read_back(*h.aut); if (g == h.model) return;
		if (P == "C02") { violation(P + ".operand-unchanged", hsite(s), std::string(which) + " operand changed by the call:" + mdl::diff(h.model, g)); return; }
		int e = mdl::equiv(g, h.model, 6000);
		if (e == 0) violation(P + ".operand-unchanged", hsite(s), std::string("the language of the ") + which + " operand changed by the call:" + mdl::diff(h.model, g));
	};
	chk(a, "left"); if (b) chk(*b, "right");
}

// sampled membership in both directions: sound (one disagreeing tree refutes language equality), used where the exact procedure gives up
void sampled_lang_check(const std::string& oracle, const std::string& site, const TA& got, const TA& want, const std::string& what, uint64_t seed) {
	for (uint64_t k = 0; k < 24; ++k) {
		mdl::Tree t; const TA& from = (k & 1) ? got : want; const TA& other = (k & 1) ? want : got;
		if (!mdl::sample_tree(from, seed * 131 + k + want.hash(), 6, t)) { if (k > 1) break; else continue; }
		if (!mdl::accepts(other, t)) { violation(oracle, site, what + ": the tree " + mdl::tree_str(t) + " is accepted by " + ((k & 1) ? "the result but not the reference" : "the reference but not the result") + "\n  result   : " + mdl::to_lit(got).substr(0, 1500) + "\n  reference: " + mdl::to_lit(want).substr(0, 1500)); return; }
	}
}

void lang_oracle(const std::string& oracle, const std::string& site, const TA& got, const TA& want, const std::string& what) {
	api_end();
	count(c_oracle_evals);
	int e = (got.states().size() <= 8 && want.states().size() <= 8) ? mdl::equiv(got, want) : mdl::equiv(got, want, 6000);
	if (e < 0) { count(c_model_too_big); sampled_lang_check(oracle, site, got, want, what, got.hash()); return; }
	if (mdl::is_empty(want)) count(c_lang_empty); else count(c_lang_nonempty);
	if (!e) violation(oracle, site, what + ": language differs from the reference\n  result   : " + mdl::to_lit(got) + "\n  reference: " + mdl::to_lit(want));
}

// see ops_fa.cc: results fed back into products grow over a history; very large operands are skipped
bool too_big(const TA& a, const TA* b = nullptr) {
	size_t na = a.states().size() + a.rules.size(), nb = b ? b->states().size() + b->rules.size() : 1;
	return na > 400 || nb > 400 || na * nb > 20000;
}

void op_union(const Step& s) {
	ETH& a = H(s, 0); ETH& b = H(s, 1); if (!same_alpha(a, b)) throw Skip();
	if (too_big(a.model, &b.model)) throw Skip();
	long mode = mod(s.arg(2), 4); StateMap m1, m2;
	api_begin();
	if (mode == 3) { ET first = ET::Union(*a.aut, *b.aut, &m1, &m2); mode = 1; }     // maps pre-filled by an earlier identical call
	ET r = mode == 0 ? ET::Union(*a.aut, *b.aut) : (mode == 1 ? ET::Union(*a.aut, *b.aut, &m1, &m2) : ET::Union(*a.aut, *b.aut, &m1, nullptr));
	TA ma = a.model, mb = b.model; int al = a.alpha;
	api_end();
	if (armed("C02")) {
		TA got = read_back(r);
		lang_oracle("C02.union-language", "et_union", got, mdl::unite_tagged(ma, mb), "Union");
		if (mode == 1) {
			// the maps name, for every result state, the operand state it stands for
			count(c_oracle_evals);
			std::map<long, long> x1, x2; for (auto& kv : m1) x1[long(kv.first)] = long(kv.second); for (auto& kv : m2) x2[long(kv.first)] = long(kv.second);
			// every state of the result is named by the maps, and stands for exactly one operand state ...
			// every state of the result is named by the maps; a result state may stand for several operand states (an implementation
			// is free to merge), but then it must accept, as a root, what each of them accepts
			std::map<long, std::vector<std::pair<int, long>>> inv;
			for (auto& kv : x1) if (ma.states().count(kv.first)) inv[kv.second].push_back(std::make_pair(1, kv.first));
			for (auto& kv : x2) if (mb.states().count(kv.first)) inv[kv.second].push_back(std::make_pair(2, kv.first));
			for (long q : got.states()) if (!inv.count(q)) violation("C02.union-map", "et_union", "result state " + std::to_string(q) + " is not named by the reported maps");
			if (got.states().size() <= 10) for (long q : got.states()) {
				auto it = inv.find(q); if (it == inv.end()) continue;
				for (auto& who : it->second) {
					TA r1 = got; r1.finals = {q}; TA o1 = who.first == 1 ? ma : mb; o1.finals = {who.second};
					if (mdl::equiv(r1, o1, 6000) == 0) violation("C02.union-map", "et_union", "result state " + std::to_string(q) + " does not accept what the operand state it is reported to stand for (" + std::to_string(who.second) + " of the " + (who.first == 1 ? "left" : "right") + " operand) accepts");
				}
			}
		}
		check_operands_unchanged(s, a, &b, "C02");
		note_ta_case(ma, &mb, 2);
	}
	{ ETH& nr = add_result(s, std::move(r), al); record_result("union", ma, &mb, al, nr.model); }
	after_mutation(s, "et_union");
}

struct OffsetF : public VATA::AbstractReindexF {
	long off; explicit OffsetF(long o) : off(o) {}
	virtual StateType operator[](const StateType& q) override { return q + StateType(off); }
	virtual StateType at(const StateType& q) const override { return q + StateType(off); }
};

void op_union_disj(const Step& s) {
	ETH& a = H(s, 0); ETH& b = H(s, 1); if (!same_alpha(a, b)) throw Skip();
	if (too_big(a.model, &b.model)) throw Skip();
	TA ma = a.model, mb = b.model; int al = a.alpha;
	// the client makes the state sets disjoint first, as the contract requires
	std::set<long> sa = ma.states(), sb = mb.states(); bool disjoint = true;
	for (long q : sb) if (sa.count(q)) disjoint = false;
	std::unique_ptr<ET> shifted; TA mb2 = mb;
	api_begin();
	if (!disjoint) {
		long off = (sa.empty() ? 0 : *sa.rbegin()) + 1; OffsetF f(off);
		shifted.reset(new ET(b.aut->ReindexStates(f)));
		std::map<long, long> m; for (long q : sb) m[q] = q + off; mb2 = mdl::rename(mb, m);
	}
	ET r = ET::UnionDisjointStates(*a.aut, shifted ? *shifted : *b.aut);
	api_end();
	if (armed("C02")) {
		TA got = read_back(r);
		count(c_oracle_evals);
		(void)mb2;      // the property speaks about the language only; the result is not compared rule for rule
		lang_oracle("C02.union-language", "et_union_disj", got, mdl::unite_tagged(ma, mb), "UnionDisjointStates");
		check_operands_unchanged(s, a, &b, "C02");
		note_ta_case(ma, &mb, 3);
	}
	add_result(s, std::move(r), al, a.origin);
	after_mutation(s, "et_union_disj");
}

void check_product_map(const std::string& site, const TA& ma, const TA& mb, const TA& got, const VATA::AutBase::ProductTranslMap& pm) {
	count(c_oracle_evals);
	// a result state may be named by several entries (a map reused across calls keeps the entries of earlier calls): every entry whose
	// pair consists of states of these operands is a claim about what the state stands for, and is judged as such
	std::map<long, std::vector<std::pair<long, long>>> inv; std::set<long> sa = ma.states(), sb = mb.states();
	for (auto& kv : pm) if (sa.count(long(kv.first.first)) && sb.count(long(kv.first.second))) inv[long(kv.second)].push_back(std::make_pair(long(kv.first.first), long(kv.first.second)));
	for (long q : got.states()) if (!inv.count(q)) violation("C02.product-map", site, "result state " + std::to_string(q) + " does not occur in the reported map");
	// each result state accepts (as a root) exactly what both components of the pair it stands for accept
	if (got.states().size() <= 10) for (long q : got.states()) {
		auto it = inv.find(q); if (it == inv.end()) continue;
		for (auto& pr : it->second) {
			TA r1 = got; r1.finals = {q}; TA o1 = ma, o2 = mb; o1.finals = {pr.first}; o2.finals = {pr.second};
			if (mdl::equiv(r1, mdl::isect(o1, o2), 6000) == 0)
				violation("C02.product-map", site, "result state " + std::to_string(q) + " does not accept the intersection of what the pair it is reported to stand for (" + std::to_string(pr.first) + "," + std::to_string(pr.second) + ") accepts");
		}
	}
}

void do_isect(const Step& s, bool bu) {
	ETH& a = H(s, 0); ETH& b = H(s, 1); if (!same_alpha(a, b)) throw Skip();
	if (too_big(a.model, &b.model)) throw Skip();
	long mode = mod(s.arg(2), 4); VATA::AutBase::ProductTranslMap pm;
	TA ma = a.model, mb = b.model; int al = a.alpha;
	const std::string site = bu ? "et_isect_bu" : "et_isect";
	api_begin();
	if (mode == 2) {
		// pre-filled map: exactly what an earlier call of the same kind on the same operands left behind
		ET first = bu ? ET::IntersectionBU(*a.aut, *b.aut, &pm) : ET::Intersection(*a.aut, *b.aut, &pm);
	}
	if (mode == 3) {
		// one map reused across calls on OTHER operands (a joint numbering of several products): the earlier call's entries stay, new pairs get fresh numbers
		ETH& a2 = CL(s).et[size_t(mod(s.arg(0) + 1, CL(s).et.size()))]; ETH& b2 = CL(s).et[size_t(mod(s.arg(1) + 2, CL(s).et.size()))];
		if (a2.alpha != al || b2.alpha != al || too_big(a2.model, &b2.model)) mode = 1;
		else { ET first = bu ? ET::IntersectionBU(*a2.aut, *b2.aut, &pm) : ET::Intersection(*a2.aut, *b2.aut, &pm); }
	}
	ET r = bu ? (mode == 0 ? ET::IntersectionBU(*a.aut, *b.aut) : ET::IntersectionBU(*a.aut, *b.aut, &pm))
	          : (mode == 0 ? ET::Intersection(*a.aut, *b.aut) : ET::Intersection(*a.aut, *b.aut, &pm));
	api_end();
	if (armed("C02")) {
		TA got = read_back(r);
		lang_oracle("C02.isect-language", site + (mode == 2 ? ":prefilled-map" : mode == 3 ? ":map-of-another-call" : ""), got, mdl::isect(ma, mb), bu ? "IntersectionBU" : "Intersection");
		if (mode != 0) check_product_map(site + (mode == 2 ? ":prefilled-map" : mode == 3 ? ":map-of-another-call" : ""), ma, mb, got, pm);
		check_operands_unchanged(s, a, &b, "C02");
		note_ta_case(ma, &mb, bu ? 5 : 4);
	}
	{ ETH& nr = add_result(s, std::move(r), al); if (mode < 2) record_result(bu ? "isect_bu" : "isect", ma, &mb, al, nr.model); }
	after_mutation(s, site);
}
void op_isect(const Step& s) { do_isect(s, false); }
void op_isect_bu(const Step& s) { do_isect(s, true); }

void op_unreach(const Step& s) {
	ETH& a = H(s, 0); TA ma = a.model; int al = a.alpha; StateMap tm;
	api_begin();
	// bit 1: the client's long-lived map, as left by its earlier trimming calls (a pipeline that reuses one map)
	ET r = (s.arg(1) & 2) ? a.aut->RemoveUnreachableStates(&CL(s).trim_map) : ((s.arg(1) & 1) ? a.aut->RemoveUnreachableStates(&tm) : a.aut->RemoveUnreachableStates());
	api_end();
	if (armed("C03")) {
		TA got = read_back(r); count(c_oracle_evals);
		std::set<long> reach = mdl::reachable(got);
		for (long q : got.states()) if (!reach.count(q)) violation("C03.unreach-postcondition", "et_unreach", "state " + std::to_string(q) + " still occurs but is not reachable top-down from a final state\n  input : " + mdl::to_lit(ma) + "\n  result: " + mdl::to_lit(got));
		lang_oracle("C03.unreach-language", "et_unreach", got, ma, "RemoveUnreachableStates");
		check_operands_unchanged(s, a, nullptr, "C03");
		note_ta_case(ma, nullptr, 6);
	}
	{ uint64_t og = a.origin; ETH& nr = add_result(s, std::move(r), al, og); record_result("unreach", ma, nullptr, al, nr.model); }
	after_mutation(s, "et_unreach");
}

void op_useless(const Step& s) {
	ETH& a = H(s, 0); TA ma = a.model; int al = a.alpha; StateMap tm;
	api_begin();
	ET r = (s.arg(1) & 2) ? a.aut->RemoveUselessStates(&CL(s).trim_map) : ((s.arg(1) & 1) ? a.aut->RemoveUselessStates(&tm) : a.aut->RemoveUselessStates());
	api_end();
	if (armed("C03")) {
		TA got = read_back(r); count(c_oracle_evals);
		TA want = mdl::trim_useless(ma);
		// every remaining state and rule takes part in some accepting run
		std::set<long> prod = mdl::productive(got), reach = mdl::reachable(got);
		for (long q : got.states()) if (!prod.count(q) || !reach.count(q)) violation("C03.useless-postcondition", "et_useless", "state " + std::to_string(q) + " remains but takes part in no accepting run\n  input : " + mdl::to_lit(ma) + "\n  result: " + mdl::to_lit(got));
		for (const Rule& x : got.rules) { bool ok = reach.count(x.parent) > 0; for (long c : x.ch) if (!prod.count(c)) ok = false; if (!ok) violation("C03.useless-postcondition", "et_useless", "a rule remains that takes part in no accepting run"); }
		lang_oracle("C03.useless-language", "et_useless", got, ma, "RemoveUselessStates"); (void)want;
		check_operands_unchanged(s, a, nullptr, "C03");
		note_ta_case(ma, nullptr, 7);
	}
	{ uint64_t og = a.origin; ETH& nr = add_result(s, std::move(r), al, og); record_result("useless", ma, nullptr, al, nr.model); }
	after_mutation(s, "et_useless");
}

void record_decided(const std::string& what, long sel, long via, const ETH& a, const ETH* b, int result) {
	if (!armed("C11") && !armed("C19")) return;
	if (g_decided.size() >= 64) return;
	Decided d; d.what = what; d.sel = sel; d.via = via; d.a = a.model; if (b) d.b = b->model; d.alpha = a.alpha; d.result = result;
	g_decided.push_back(d);
}

// automaton-valued operations: the abstract result (its language) must be the same whenever the call is repeated on equal operands
void record_result(const std::string& what, const TA& ma, const TA* mb, int alpha, const TA& res) {
	if (!armed("C11") || g_decided.size() >= 64) return;
	if (ma.states().size() > 6 || (mb && mb->states().size() > 6)) return;
	Decided d; d.what = what; d.sel = 0; d.via = 0; d.a = ma; if (mb) d.b = *mb; d.alpha = alpha; d.result = -1; d.res = res;
	g_decided.push_back(d);
}

void op_is_empty(const Step& s) {
	ETH& a = H(s, 0);
	api_begin();
	bool e = a.aut->IsLangEmpty();
	observe(uint64_t(e));
	api_end();
	if (armed("C03")) {
		count(c_oracle_evals); bool want = mdl::is_empty(a.model);
		(want ? count(c_lang_empty) : count(c_lang_nonempty));
		if (e != want) violation("C03.emptiness", "et_is_empty", std::string("IsLangEmpty returned ") + (e ? "true" : "false") + " for " + mdl::to_lit(a.model));
		check_operands_unchanged(s, a, nullptr, "C03");
		note_ta_case(a.model, nullptr, 8);
	}
	record_decided("is_empty", 0, 0, a, nullptr, e);
}

void op_reduce(const Step& s) {
	ETH& a = H(s, 0); TA ma = a.model; int al = a.alpha;
	api_begin();
	ET r = a.aut->Reduce();
	api_end();
	if (armed("C05")) {
		TA got = read_back(r); count(c_oracle_evals);
		if (got.states().size() > ma.states().size()) violation("C05.reduce-size", "et_reduce", "Reduce returned more states than the input has");
		if (got.rules.size() > ma.rules.size()) violation("C05.reduce-size", "et_reduce", "Reduce returned more rules than the input has");
		if (ma.states().size() <= 10) {
			// "every state [of the result] is the image of at least one state of A": judged semantically, so that neither
			// the numbering of the result nor the equivalence that is quotiented matters -- a result state stands for a
			// state of A iff it accepts, as a root, exactly what that state accepts in A
			for (long q : got.states()) {
				TA gq = got; gq.finals = {q}; bool found = false, undecided = false;
				for (long p : ma.states()) { TA ap = ma; ap.finals = {p}; int e = mdl::equiv(gq, ap, 6000); if (e == 1) { found = true; break; } if (e < 0) undecided = true; }
				count(c_oracle_evals);
				if (!found && !undecided) violation("C05.reduce-image", "et_reduce", "result state " + std::to_string(q) + " stands for no state of the input: no state of the input accepts, as a root, what it accepts in the result\n  input : " + mdl::to_lit(ma) + "\n  result: " + mdl::to_lit(got));
			}
		}
		{
			// exact language equality where the reference procedure finishes within its work bound; otherwise sampled
			// membership in both directions (sound: a disagreement on one tree refutes language equality).  The result
			// is NOT compared with "the" simulation quotient: the property does not prescribe which rules of a class survive.
			int e = ma.states().size() <= 8 ? mdl::equiv(got, ma) : mdl::equiv(got, ma, 6000);
			count(c_oracle_evals);
			if (e == 0) violation("C05.reduce-language", "et_reduce", "Reduce: language differs from the input\n  input : " + mdl::to_lit(ma) + "\n  result: " + mdl::to_lit(got));
			if (e < 0) {
				count(c_model_too_big);
				for (uint64_t k = 0; k < 24; ++k) {
					mdl::Tree t; const TA& from = (k & 1) ? got : ma; const TA& other = (k & 1) ? ma : got;
					if (!mdl::sample_tree(from, uint64_t(s.arg(0)) * 131 + k + ma.hash(), 6, t)) break;
					if (!mdl::accepts(other, t)) { violation("C05.reduce-language", "et_reduce", std::string("the tree ") + mdl::tree_str(t) + " is accepted by " + ((k & 1) ? "the result but not the input" : "the input but not the result") + "\n  input : " + mdl::to_lit(ma) + "\n  result: " + mdl::to_lit(got)); break; }
				}
			}
			(mdl::is_empty(ma) ? count(c_lang_empty) : count(c_lang_nonempty));
		}
		check_operands_unchanged(s, a, nullptr, "C05");
		note_ta_case(ma, nullptr, 9);
	}
	{ ETH& nr = add_result(s, std::move(r), al); record_result("reduce", ma, nullptr, al, nr.model); }
	after_mutation(s, "et_reduce");
}

mdl::Alphabet dict_content(const ET& a) {
	mdl::Alphabet sigma;
	const ET::OnTheFlyAlphabet* otf = dynamic_cast<const ET::OnTheFlyAlphabet*>(a.GetAlphabet().get());
	if (!otf) harness_error("alphabet is not an on-the-fly alphabet");
	for (auto& kv : otf->GetSymbolDict()) sigma.insert(mdl::Sym(kv.first.symbolStr, int(kv.first.rank)));
	return sigma;
}

// C06's oracle for one Complement call: `r` is read by iteration and judged against the model of the operand over the dictionary content at the call
void judge_complement(const ET& operand, const TA& ma, const ET& r, const mdl::Alphabet& sigma, const char* site) {
		count(c_oracle_evals);
		// read the result by iteration and interpret its symbol NUMBERS through the operand's alphabet
		TA got; auto bt = operand.GetAlphabet()->GetSymbolBackTransl();
		for (const ET::Transition& t : r) {
			Rule x; x.parent = long(t.GetParent()); for (StateType c : t.GetChildren()) x.ch.push_back(long(c));
			// a symbol number the alphabet does not know, or one used with another rank, is a symbol outside S; whether that matters
			// is decided on trees (is_complement looks at the rules that take part in an accepting run)
			try { ET::StringRank sr = (*bt)(t.GetSymbol()); x.sym = sr.rank == x.ch.size() ? sr.symbolStr : sr.symbolStr + "?rank" + std::to_string(sr.rank); }
			catch (const std::exception&) { x.sym = "?unknown" + std::to_string(size_t(t.GetSymbol())); }
			got.rules.insert(x);
		}
		for (StateType f : r.GetFinalStates()) got.finals.insert(long(f));
		std::string why; int ok = mdl::is_complement(ma, got, sigma, &why);
		if (ok < 0) count(c_model_too_big);
		else if (!ok) violation("C06.complement-language", site, why + "\n  automaton : " + mdl::to_lit(ma) + "\n  complement: " + mdl::to_lit(got));
		uint64_t ah = 5; for (auto& y : sigma) ah = mix64(ah, hash_str(y.first) + uint64_t(y.second));
		note_ta_case(ma, nullptr, ah);
		(mdl::is_empty(ma) ? count(c_lang_empty) : count(c_lang_nonempty));
}

void op_complement(const Step& s) {
	ETH& a = H(s, 0); TA ma = a.model; int al = a.alpha;
	mdl::Alphabet sigma = dict_content(*a.aut);
	// sigma is the dictionary content at the call: other modules (the command-line steps, text loads) register symbols in the default alphabet too
	api_begin();
	api_site("et_complement", BUDGET_INCONCLUSIVE, 3000000);
	ET r = a.aut->Complement();
	api_end();
	if (armed("C06")) {
		judge_complement(*a.aut, ma, r, sigma, "et_complement");
		check_operands_unchanged(s, a, nullptr, "C06");
	}
	// the result carries the global alphabet whatever the operand's was: keep it only when that is sound
	if (al == 0) { add_result(s, std::move(r), 0); after_mutation(s, "et_complement"); }
}

// Complement over a short-lived private alphabet: the alphabet, the automaton and the result exist only inside this step.
// A later step of the same kind creates another alphabet (other symbols, other ranks) that the allocator may place at the
// address the previous one had: "for all alphabets" includes alphabets that come and go within one process.
void op_complement_local(const Step& s) {
	TA lit = mdl::from_lit(s.lit); long flags = s.arg(0), mask = s.arg(1);
	static const mdl::Sym X[] = {{"a", 0}, {"b", 1}, {"c", 2}, {"d", 0}, {"e", 1}, {"f", 2}, {"g", 0}, {"h", 2}};
	std::set<std::string> used; for (auto& y : lit.symbols()) used.insert(y.first);
	VATA::Parsing::TimbukParser parser; VATA::AutBase::StateDict dict;
	std::string text = mdl::to_timbuk(lit, "q", nullptr, (flags & 1) != 0);
	api_begin();
	{
		ET::AlphabetType alpha(new ET::OnTheFlyAlphabet());
		ET a; a.SetAlphabet(alpha);
		auto reg = [&]() { auto tr = alpha->GetSymbolTransl(); for (int i = 0; i < 8; ++i) if (((mask >> i) & 1) && !used.count(X[i].first)) (*tr)(ET::StringRank(X[i].first, size_t(X[i].second))); };
		if (flags & 2) reg();
		a.LoadFromString(parser, text, dict);
		if (!(flags & 2)) reg();
		std::map<long, long> m; bool ok = true;
		for (long q : lit.states()) { auto it = dict.FindFwd("q" + std::to_string(q)); if (it == dict.EndFwd()) ok = false; else m[q] = long(it->second); }
		TA ma = mdl::rename(lit, m);
		mdl::Alphabet sigma = dict_content(a);
		api_site("et_complement:local-alphabet", BUDGET_INCONCLUSIVE, 3000000);
		ET r = a.Complement();
		api_end();
		if (armed("C06") && ok) judge_complement(a, ma, r, sigma, "et_complement:local-alphabet");
		api_begin();
	}
	api_end();
}

// A call the library REJECTS (parameters that select nothing: a default-constructed ReduceParam / SimParam).  Rejection by a
// std::exception is the expected outcome; the point of the step is what comes after it: an operation that was turned down half-way
// must not leave anything behind that a later, ordinary call on any automaton of the process trips over.
void op_rejected(const Step& s) {
	ETH& a = H(s, 0); long kind = mod(s.arg(1), 2);
	api_begin(); api_site(kind == 0 ? "et_rejected:reduce" : "et_rejected:sim");
	try {
		if (kind == 0) { VATA::ReduceParam rp; ET r = a.aut->Reduce(rp); }
		else { VATA::SimParam sp; sp.SetNumStates(a.model.states().size()); auto rel = a.aut->ComputeSimulation(sp); }
	} catch (const std::exception&) { count(c_notimpl_thrown); }
	api_end();
	after_mutation(s, "et_rejected");
}

void op_witness(const Step& s) {
	ETH& a = H(s, 0); TA ma = a.model; int al = a.alpha;
	api_begin();
	ET r = a.aut->GetCandidateTree();
	api_end();
	if (armed("C15")) {
		TA got = read_back(r); count(c_oracle_evals);
		int in = mdl::incl(got, ma);
		if (in < 0) count(c_model_too_big);
		else if (!in) violation("C15.witness-sublanguage", "et_witness", "the witness accepts a tree the automaton does not\n  automaton: " + mdl::to_lit(ma) + "\n  witness  : " + mdl::to_lit(got));
		bool e1 = mdl::is_empty(ma), e2 = mdl::is_empty(got);
		(e1 ? count(c_lang_empty) : count(c_lang_nonempty));
		if (!e1 && e2) violation("C15.witness-nonempty", "et_witness", "the witness is empty although the automaton accepts a tree\n  automaton: " + mdl::to_lit(ma) + "\n  witness  : " + mdl::to_lit(got));
		check_operands_unchanged(s, a, nullptr, "C15");
		note_ta_case(ma, nullptr, 10);
	}
	add_result(s, std::move(r), al);
	after_mutation(s, "et_witness");
}

// ----------------------------------------------------------------- renaming (C14)
struct MapF : public VATA::AbstractReindexF {
	std::map<long, long> m;
	virtual StateType operator[](const StateType& q) override { return StateType(m.at(long(q))); }
	virtual StateType at(const StateType& q) const override { return StateType(m.at(long(q))); }
};

std::map<long, long> make_state_map(const TA& a, long kind, Rng& r) {
	std::map<long, long> m; std::set<long> st = a.states(); std::vector<long> v(st.begin(), st.end());
	switch (mod(kind, 4)) {
		case 0: for (long q : v) m[q] = q; break;                                                       // identity
		case 1: { std::vector<long> p(v.size()); for (size_t i = 0; i < p.size(); ++i) p[i] = long(i); // dense bijection
			for (size_t i = p.size(); i > 1; --i) std::swap(p[i - 1], p[r.below(i)]); for (size_t i = 0; i < v.size(); ++i) m[v[i]] = p[i]; break; }
		case 2: { std::set<long> used; for (long q : v) { long t; do { t = long(r.below(1500)); } while (!used.insert(t).second); m[q] = t; } break; }   // injective, sparse
		default: { long k = 1 + long(r.below(v.empty() ? 1 : (v.size() + 1) / 2)); for (long q : v) m[q] = long(r.below(uint64_t(k))) * (r.chance(1, 2) ? 1 : 7); break; }  // merging
	}
	return m;
}

void check_image(const Step& s, const TA& src, const TA& dst_before, const TA& got, const std::map<long, long>& m, bool add_finals, const std::string& site) {
	count(c_oracle_evals);
	TA img = mdl::rename(src, m); if (!add_finals) img.finals.clear();
	TA want = mdl::unite(dst_before, img);
	if (got != want) violation("C14.image", site, "result is not the image of the automaton under the map:" + mdl::diff(want, got) + "\n  source: " + mdl::to_lit(src) + "\n  result: " + mdl::to_lit(got));
	std::set<long> im; bool inj = true; for (auto& kv : m) if (!im.insert(kv.second).second) inj = false;
	if (dst_before.rules.empty() && dst_before.finals.empty() && add_finals) {
		if (inj) {
			if (got.rules.size() != src.rules.size() || got.states().size() != src.states().size()) violation("C14.injective-iso", site, "injective renaming changed the number of states or rules");
			if (src.states().size() <= 6) {
				// same language up to nothing: states are only names
				int e = mdl::equiv(got, src); if (e == 0) violation("C14.injective-iso", site, "injective renaming changed the language");
			}
		} else if (src.states().size() <= 6) {
			int in = mdl::incl(src, got); if (in == 0) violation("C14.merge-superlanguage", site, "merging states lost a tree of the language");
		}
	}
	(void)s;
}

void op_reindex(const Step& s) {
	ETH& a = H(s, 0); TA ma = a.model; int al = a.alpha; Rng r(uint64_t(s.arg(2)) + 11); long kind = s.arg(1);
	api_begin();
	if (mod(kind, 5) == 4) {
		// weak translator over a map, counter starting anywhere (what SanitizeAutsForInclusion does)
		// bit 1 of the flags: the client's kept map and counter - consecutive calls share one renaming, states met before keep their numbers
		bool kept = (s.arg(3) & 2) != 0; Client& cl = CL(s);
		StateMap own; StateType own_cnt = StateType(r.below(3) ? 0 : r.below(50));
		StateMap& sm = kept ? cl.reindex_map : own; StateType& cnt = kept ? cl.reindex_cnt : own_cnt;
		VATA::AutBase::StateToStateTranslWeak tr(sm, [&cnt](const StateType&) { return cnt++; });
		ET res = a.aut->ReindexStates(tr);
		if (armed("C14")) {
			std::map<long, long> m; for (auto& kv : sm) m[long(kv.first)] = long(kv.second);
			count(c_oracle_evals);
			// the translator is the map the result is the image under: it must know every occurring state (more entries do no harm)
			for (long q : ma.states()) if (!m.count(q)) violation("C14.translator", "et_reindex:weak", "weak translator has no entry for state " + std::to_string(q) + " after the call");
			check_image(s, ma, TA(), read_back(res), m, true, kept ? "et_reindex:weak:kept-map" : "et_reindex:weak");
			check_operands_unchanged(s, a, nullptr, "C14");
			note_ta_case(ma, nullptr, 11);
		}
		add_result(s, std::move(res), al);
	} else {
		MapF f; f.m = make_state_map(ma, kind, r); bool addf = !(s.arg(3) & 1);
		ET res = a.aut->ReindexStates(f, addf);
		if (armed("C14")) {
			check_image(s, ma, TA(), read_back(res), f.m, addf, "et_reindex:functor");
			check_operands_unchanged(s, a, nullptr, "C14");
			note_ta_case(ma, nullptr, 12 + uint64_t(mod(kind, 4)));
		}
		add_result(s, std::move(res), al);
	}
	after_mutation(s, "et_reindex");
}

void op_reindex_into(const Step& s) {
	size_t i = HI(s, 0), j = HI(s, 1); Client& c = CL(s); if (i == j || c.et[i].alpha != c.et[j].alpha) throw Skip();
	ETH& a = c.et[i]; ETH& d = c.et[j]; Rng r(uint64_t(s.arg(3)) + 13);
	drop_iters_of(c, d.aut.get());
	MapF f; f.m = make_state_map(a.model, s.arg(2), r); bool addf = !(s.arg(4) & 1);
	TA before = d.model;
	if (is_shared(c, d)) count(c_cow_writes_on_shared);
	api_begin();
	a.aut->ReindexStates(*d.aut, f, addf);
	TA img = mdl::rename(a.model, f.m); if (!addf) img.finals.clear();
	d.model = mdl::unite(before, img);
	api_end();
	if (armed("C14")) {
		check_image(s, a.model, before, read_back(*d.aut), f.m, addf, "et_reindex_into");
		check_operands_unchanged(s, a, nullptr, "C14");
		// sharing peers of the destination are unchanged
		check_all_languages("C14.peers-keep-language", "et_reindex_into", "ReindexStates into a destination that shares storage");
		note_ta_case(a.model, &before, 16);
	}
	after_mutation(s, "et_reindex_into");
}

void op_collapse(const Step& s) {
	ETH& a = H(s, 0); TA ma = a.model; int al = a.alpha; Rng r(uint64_t(s.arg(1)) + 19);
	std::map<long, long> m = make_state_map(ma, s.arg(2), r);
	StateMap sm; for (auto& kv : m) sm[StateType(kv.first)] = StateType(kv.second);
	api_begin();
	ET res = a.aut->CollapseStates(sm);
	api_end();
	if (armed("C14")) {
		check_image(s, ma, TA(), read_back(res), m, true, "et_collapse");
		check_operands_unchanged(s, a, nullptr, "C14");
		note_ta_case(ma, nullptr, 17 + uint64_t(mod(s.arg(2), 4)));
	}
	add_result(s, std::move(res), al);
	after_mutation(s, "et_collapse");
}

struct SymF : public ET::AbstractSymbolTranslateF {
	std::map<ET::SymbolType, ET::SymbolType> m;
	virtual ET::SymbolType operator()(const ET::SymbolType& y) override { auto it = m.find(y); return it == m.end() ? y : it->second; }
};

void op_transl_syms(const Step& s) {
	ETH& a = H(s, 0); TA ma = a.model; int al = a.alpha; Rng r(uint64_t(s.arg(1)) + 23);
	// permute / merge names among symbols of equal rank
	std::map<int, std::vector<std::string>> by; for (auto& y : ma.symbols()) by[y.second].push_back(y.first);
	std::map<std::string, std::string> nm; SymF f;
	for (auto& kv : by) {
		std::vector<std::string> to = kv.second;
		if (s.arg(2) & 1) { for (auto& t : to) t = kv.second[r.below(kv.second.size())]; }        // merging
		else for (size_t i = to.size(); i > 1; --i) std::swap(to[i - 1], to[r.below(i)]);           // permutation
		if (s.arg(2) & 2) for (auto& t : to) if (r.chance(1, 3)) t = t + "_n";                     // fresh names
		for (size_t i = 0; i < to.size(); ++i) {
			// (name,rank) pairs: two ranks of one name must stay different symbols
			nm[kv.second[i] + "/" + std::to_string(kv.first)] = to[i];
			f.m[sym_num(*a.aut, al, kv.second[i], size_t(kv.first))] = sym_num(*a.aut, al, to[i], size_t(kv.first));
		}
	}
	api_begin();
	ET res = a.aut->TranslateSymbols(f);
	api_end();
	if (armed("C14")) {
		count(c_oracle_evals);
		TA want; want.finals = ma.finals;
		for (const Rule& x : ma.rules) { Rule y = x; y.sym = nm[x.sym + "/" + std::to_string(x.ch.size())]; want.rules.insert(y); }
		TA got = read_back(res);
		if (got != want) violation("C14.symbol-image", "et_transl_syms", "result is not the image under the symbol map:" + mdl::diff(want, got));
		check_operands_unchanged(s, a, nullptr, "C14");
		note_ta_case(ma, nullptr, 21 + uint64_t(s.arg(2) & 3));
	}
	add_result(s, std::move(res), al);
	after_mutation(s, "et_transl_syms");
}

// ----------------------------------------------------------------- simulation (C04)
void op_sim(const Step& s) {
	ETH& a = H(s, 0); bool up = s.arg(1) & 1; Rng r(uint64_t(s.arg(2)) + 29);
	api_begin();
	std::unique_ptr<ET> work; TA wm = a.model;
	// direct mode: the handle's own object (with whatever history it has: assigned over, asked before) when its occurring states
	// already are 0..n-1 and, for the upward relation, it has no useless states
	bool direct = false;
	if (s.arg(3) & 2) {
		std::set<long> st = wm.states(); direct = !st.empty() && *st.begin() == 0 && *st.rbegin() == long(st.size()) - 1;
		if (direct && up && !(mdl::trim_useless(wm) == wm)) direct = false;
	}
	if (direct) { }
	else if (up) {
		// upward simulation is specified for automata without useless states
		work.reset(new ET(a.aut->RemoveUselessStates())); wm = read_back(*work);
		if (armed("C04") && !(mdl::trim_useless(wm) == wm)) { api_end(); throw Skip(); }      // the preparation failed to establish C04's precondition: that is C03's business, not a simulation defect
	} else work.reset(new ET(*a.aut));
	// dense numbering 0..n-1 of the occurring states: either in visiting order (what the CLI does) or a drawn bijection
	std::map<long, long> m; ET dense;
	if (direct) { }
	else if (s.arg(3) & 1) {
		StateMap sm; StateType cnt = 0;
		VATA::AutBase::StateToStateTranslWeak tr(sm, [&cnt](const StateType&) { return cnt++; });
		dense = work->ReindexStates(tr);
		for (auto& kv : sm) m[long(kv.first)] = long(kv.second);
	} else {
		MapF f; f.m = make_state_map(wm, 1, r); m = f.m;
		dense = work->ReindexStates(f);
	}
	TA dm = mdl::rename(wm, m); size_t n = dm.states().size();
	if (armed("C04") && !direct) { TA seen = read_back(dense); if (!(seen == dm)) { api_end(); throw Skip(); } }      // the automaton the simulation is computed on must be the one the oracle judges (renaming is C14's business)
	if (n == 0) throw Skip();
	VATA::SimParam sp; sp.SetNumStates(n);
	sp.SetRelation(up ? VATA::SimParam::e_sim_relation::TA_UPWARD : VATA::SimParam::e_sim_relation::TA_DOWNWARD);
	VATA::AutBase::StateDiscontBinaryRelation rel0 = direct ? a.aut->ComputeSimulation(sp) : dense.ComputeSimulation(sp);
	// a client may hand the relation on (move-construct another object from it) and reuse its own variable for the relation of
	// another automaton: the relation it kept must stay what it was
	std::unique_ptr<VATA::AutBase::StateDiscontBinaryRelation> kept;
	if (s.arg(3) & 4) {
		kept.reset(new VATA::AutBase::StateDiscontBinaryRelation(std::move(rel0)));
		if (n > 1) {
			// the variable gets the relation of a renumbered copy of the automaton (final and non-final states exchanged in the numbering)
			MapF f2; std::vector<long> ids; for (long q : dm.states()) ids.push_back(q); for (size_t i = 0; i < ids.size(); ++i) f2.m[ids[i]] = ids[ids.size() - 1 - i];
			ET other = (direct ? *a.aut : dense).ReindexStates(f2);
			rel0 = other.ComputeSimulation(sp);
		}
	}
	VATA::AutBase::StateDiscontBinaryRelation& rel = kept ? *kept : rel0;
	api_end();
	if (armed("C04")) {
		count(c_oracle_evals);
		mdl::Rel want = up ? mdl::up_sim(dm) : mdl::down_sim(dm);
		const std::string site = std::string(up ? "et_sim:up" : "et_sim:down") + (direct ? ":own-object" : "") + (kept ? ":handed-on" : "");
		for (long q : dm.states()) for (long p : dm.states()) {
			bool g; try { g = rel.get(size_t(q), size_t(p)); } catch (const std::exception& e) { violation("C04.relation-domain", site, "relation cannot be queried for an occurring state: " + std::string(e.what())); return; }
			bool w = want.count(std::make_pair(q, p)) > 0; count(c_sim_pairs_checked);
			if (g != w) violation(up ? "C04.up-sim" : "C04.down-sim", site, "pair (" + std::to_string(q) + "," + std::to_string(p) + ") is " + (g ? "in" : "not in") + " the returned relation but " + (w ? "in" : "not in") + " the greatest simulation\n  automaton: " + mdl::to_lit(dm));
		}
		if (want.size() > n) note_ta_case(dm, nullptr, up ? 31 : 30);   // non-trivial: more than the identity
		else note_ta_case(dm, nullptr, up ? 33 : 32);
		check_operands_unchanged(s, a, nullptr, "C04");
	}
}

// ----------------------------------------------------------------- inclusion (C01)
const char* const SEL_NAMES[] = {"up-nosim", "up-sim", "down-nonrec-nosim", "down-nonrec-sim", "down-rec-nosim", "down-rec-sim", "down-rec-opt-nosim", "down-rec-opt-sim",
	"down-nonrec-opt-nosim", "down-nonrec-opt-sim", "congr-depth", "congr-breadth", "up-optC"};
const int N_SEL = 13;

void sel_options(long sel, Options& o, VATA::InclParam& ip) {
	bool down = false, rec = false, opt = false, sim = false, congr = false, breadth = false;
	switch (sel) {
		case 0: break; case 1: sim = true; break;
		case 2: down = true; break; case 3: down = true; sim = true; break;
		case 4: down = true; rec = true; break; case 5: down = true; rec = true; sim = true; break;
		case 6: down = true; rec = true; opt = true; break; case 7: down = true; rec = true; opt = true; sim = true; break;
		case 8: down = true; opt = true; break; case 9: down = true; opt = true; sim = true; break;
		case 10: congr = true; break; case 11: congr = true; breadth = true; break;
		default: opt = true; break;
	}
	o["dir"] = down ? "down" : "up"; o["rec"] = rec ? "yes" : "no"; o["optC"] = opt ? "yes" : "no"; o["sim"] = sim ? "yes" : "no";
	o["alg"] = congr ? "congr" : "antichains"; o["order"] = breadth ? "breadth" : "depth";
	ip.SetAlgorithm(congr ? VATA::InclParam::e_algorithm::congruences : VATA::InclParam::e_algorithm::antichains);
	ip.SetDirection(down ? VATA::InclParam::e_direction::downward : VATA::InclParam::e_direction::upward);
	ip.SetUseRecursion(rec); ip.SetUseDownwardCacheImpl(opt); ip.SetUseSimulation(sim);
	ip.SetSearchOrder(breadth ? VATA::InclParam::e_search_order::breadth : VATA::InclParam::e_search_order::depth);
}

// The downward algorithms enumerate choice functions and are exponential even on
// small automata (measured: 1.6 s for a 7-state pair in the non-recursive
// variant): running out of budget there is inconclusive, not a hang.  The
// upward algorithm never needed more than 3*10^5 allocator events on the
// generated sizes; its budget is 100 times that and exhausting it is a hang.
BudgetPolicy incl_budget_policy(long sel) { return (sel == 0 || sel == 1 || sel >= 8) ? BUDGET_HANG : BUDGET_INCONCLUSIVE; }
uint64_t incl_budget(long sel) { return (sel == 0 || sel == 1 || sel >= 8) ? 30000000 : 3000000; }

// returns 0/1, or 2 for NotImplementedException
int run_incl(const ET& a, const ET& b, long sel, long via) {
	Options o; VATA::InclParam ip; sel_options(sel, o, ip);
	try {
		if (via == 2) return ET::CheckInclusion(a, b) ? 1 : 0;                  // the two-argument overload (default parameters)
		if (via == 0 && !ip.GetUseSimulation()) return ET::CheckInclusion(a, b, ip) ? 1 : 0;
		Arguments args; args.options = o;
		return ::CheckInclusion<ET>(a, b, args) ? 1 : 0;     // cli/operations.hh: sanitise, union, simulation, check
	} catch (const VATA::NotImplementedException&) { count(c_notimpl_thrown); return 2; }
	catch (const std::exception&) { if (sel < 8) throw; count(c_notimpl_thrown); return 2; }      // a selection outside the eight of C01 may be refused with any exception
}

void op_incl(const Step& s) {
	ETH& a = H(s, 0); ETH& b = H(s, 1); if (!same_alpha(a, b)) throw Skip();
	if (a.model.states().size() > 40 || b.model.states().size() > 40 || too_big(a.model, &b.model)) throw Skip();
	long sel = mod(s.arg(2), N_SEL), via = (s.arg(3) & 1) | (sel < 10 ? (sel & 1) : 0);
	if (s.arg(3) == 2 && sel == 0) via = 2;
	const std::string site = std::string("et_incl:") + SEL_NAMES[sel] + (via == 2 ? ":default-overload" : via ? ":cli" : ":api");
	api_begin();
	api_site(site, incl_budget_policy(sel), incl_budget(sel));
	int v = run_incl(*a.aut, *b.aut, sel, via);
	observe(uint64_t(v));
	api_end();
	if (armed("C01")) {
		count(c_oracle_evals);
		if (sel >= 8) {
			// outside the eight selections C01 quantifies over: refusing is fine, and so is a verdict -- but "returns true exactly when"
			// is unconditional: a verdict that is returned must be the right one
			int want = v == 2 ? -1 : mdl::incl(a.model, b.model);
			if (want >= 0 && v != want) violation("C01.verdict", site, std::string("a selection outside the implemented eight returned the verdict ") + (v ? "true" : "false") + " but the reference says " + (want ? "included" : "not included") + "\n  smaller: " + mdl::to_lit(a.model) + "\n  bigger : " + mdl::to_lit(b.model));
		} else {
			if (v == 2) violation("C01.implemented-selection", site, "an implemented parameter selection threw NotImplementedException");
			int want = mdl::incl(a.model, b.model);
			if (want < 0) count(c_model_too_big);
			else {
				(want ? count(c_verdict_true) : count(c_verdict_false));
				if (v != want) violation("C01.verdict", site, std::string("CheckInclusion returned ") + (v ? "true" : "false") + " but the reference says " + (want ? "included" : "not included")
					+ "\n  smaller: " + mdl::to_lit(a.model) + "\n  bigger : " + mdl::to_lit(b.model));
				note_ta_case(a.model, &b.model, 40 + uint64_t(sel) * 2 + uint64_t(via));
			}
		}
		check_operands_unchanged(s, a, &b, "C01");
	}
	if (sel < 8) record_decided("incl", sel, via, a, &b, v);
}

// all eight implemented selections on one pair, in a drawn order: they must agree
void op_incl_all(const Step& s) {
	ETH& a = H(s, 0); ETH& b = H(s, 1); if (!same_alpha(a, b)) throw Skip();
	if (a.model.states().size() > 40 || b.model.states().size() > 40 || too_big(a.model, &b.model)) throw Skip();
	Rng r(uint64_t(s.arg(2)) + 37); std::vector<long> order = {0, 1, 2, 3, 4, 5, 6, 7};
	for (size_t i = order.size(); i > 1; --i) std::swap(order[i - 1], order[r.below(i)]);
	int want = mdl::incl(a.model, b.model); int first = -1; long firstsel = 0;
	api_begin();
	for (long sel : order) {
		long via = long(r.below(2)) | (sel & 1);
		const std::string site = std::string("et_incl:") + SEL_NAMES[sel] + (via ? ":cli" : ":api");
		api_site(site, incl_budget_policy(sel), incl_budget(sel));
		int v = run_incl(*a.aut, *b.aut, sel, via);
		observe(uint64_t(v));
		if (!armed("C01")) continue;
		count(c_oracle_evals);
		if (v == 2) { violation("C01.implemented-selection", site, "an implemented parameter selection threw NotImplementedException"); continue; }
		if (want >= 0) {
			(want ? count(c_verdict_true) : count(c_verdict_false));
			if (v != want) { violation("C01.verdict", site, std::string("CheckInclusion returned ") + (v ? "true" : "false") + " but the reference says " + (want ? "included" : "not included")
				+ "\n  smaller: " + mdl::to_lit(a.model) + "\n  bigger : " + mdl::to_lit(b.model)); continue; }
		} else count(c_model_too_big);
		if (first < 0) { first = v; firstsel = sel; }
		else if (v != first) violation("C01.selections-agree", site, std::string("selections disagree: ") + SEL_NAMES[firstsel] + " says " + std::to_string(first) + ", " + SEL_NAMES[sel] + " says " + std::to_string(v));
	}
	if (!armed("C01")) { api_end(); return; }
	if (want >= 0) note_ta_case(a.model, &b.model, 39);
	check_operands_unchanged(s, a, &b, "C01");
}

// ----------------------------------------------------------------- C11: repeat a deciding operation later
ET build_from_model(const TA& m, int alpha) {
	ET a; if (alpha > 0) a.SetAlphabet(alpha_obj(alpha));
	for (const Rule& x : m.rules) { ET::StateTuple ch; for (long c : x.ch) ch.push_back(StateType(c)); a.AddTransition(ch, sym_num(a, alpha, x.sym, x.ch.size()), StateType(x.parent)); }
	for (long f : m.finals) a.SetStateFinal(StateType(f));
	return a;
}

// "An object with a history": a near relative of the handle's current value (same states; a rule or a final state dropped, or
// one rule redirected) is built aside and copy-assigned over the SAME object; the operation that was asked of the object
// before is then asked again by the plan.  Whatever an object remembers about its earlier value must not survive the assignment.
void op_twist(const Step& s) {
	ETH& h = H(s, 0); Rng r(uint64_t(s.arg(1)) + 41); Client& c = CL(s);
	gen::Pool pool; for (auto& y : h.model.symbols()) pool.push_back(mdl::Sym(y.first, y.second));
	if (pool.empty() || too_big(h.model)) throw Skip();
	TA rel = gen::derive_ta(r, pool, h.model, (s.arg(2) & 1) ? 3 : 2);
	if (s.arg(2) & 2) rel = gen::derive_ta(r, pool, rel, 3);
	drop_iters_of(c, h.aut.get());
	ET fresh = build_from_model(rel, h.alpha);
	api_begin();
	*h.aut = fresh;
	h.model = rel; h.origin = ++g_origin_ctr;
	after_mutation(s, "et_twist");
}

void op_repeat(const Step& s) {
	if (g_decided.empty()) throw Skip();
	const Decided d = g_decided[size_t(mod(s.arg(0), g_decided.size()))];
	api_begin();
	ET a = build_from_model(d.a, d.alpha); int v;
	if (d.result < 0) {
		// automaton-valued: repeat, read back, compare the languages
		ET b = build_from_model(d.b, d.alpha);
		ET r = d.what == "union" ? ET::Union(a, b) : d.what == "isect" ? ET::Intersection(a, b) : d.what == "isect_bu" ? ET::IntersectionBU(a, b) : d.what == "unreach" ? a.RemoveUnreachableStates() : d.what == "useless" ? a.RemoveUselessStates() : a.Reduce();
		api_end();
		if (d.alpha > 0) r.SetAlphabet(alpha_obj(d.alpha));
		TA got = read_back(r); count(c_repeat_checks); count(c_oracle_evals);
		int e = mdl::equiv(got, d.res);
		if (e == 0) violation(g_profile + ".result-depends-only-on-operands", "et_repeat:" + d.what, "the same operation on equal operands returned an automaton with another language than earlier in the process\n  a: " + mdl::to_lit(d.a) + "\n  b: " + mdl::to_lit(d.b) + "\n  earlier: " + mdl::to_lit(d.res) + "\n  now    : " + mdl::to_lit(got));
		else if (e > 0) note_case(mix64(hash_str(d.what), mix64(d.a.hash(), d.b.hash())));
		return;
	}
	if (d.what == "is_empty") v = a.IsLangEmpty();
	else { ET b = build_from_model(d.b, d.alpha); api_site("et_repeat:incl:" + std::string(SEL_NAMES[d.sel]), incl_budget_policy(d.sel), incl_budget(d.sel)); v = run_incl(a, b, d.sel, d.via); }
	api_end(); count(c_repeat_checks); count(c_oracle_evals);
	if (v != d.result) violation(g_profile + ".result-depends-only-on-operands", "et_repeat:" + d.what + (d.what == "incl" ? std::string(":") + SEL_NAMES[d.sel] : std::string()),
		"the same operation on equal operands returned " + std::to_string(d.result) + " earlier and " + std::to_string(v) + " now\n  a: " + mdl::to_lit(d.a) + "\n  b: " + mdl::to_lit(d.b));
}

// ----------------------------------------------------------------- dump to the text store
void op_dump(const Step& s) {
	ETH& a = H(s, 0);
	VATA::Serialization::TimbukSerializer ser;
	api_begin();
	std::string text = a.aut->DumpToString(ser);
	observe(text);
	Blob b; b.bytes = text; b.kind = "et"; b.model_lit = mdl::to_lit(a.model); b.owner = s.client;
	blobs().push_back(b);
}

// ----------------------------------------------------------------- abort / final
void abort_client(int c, uint64_t order_seed) {
	if (size_t(c) >= g_clients.size()) return;
	Client& cl = g_clients[size_t(c)]; Rng r(order_seed + 41);
	// views first (they must not outlive their automaton), then the automata in a drawn order
	while (!cl.iters.empty()) { size_t i = size_t(r.below(cl.iters.size())); cl.iters[i].reset(); cl.iters.erase(cl.iters.begin() + long(i)); }
	while (!cl.et.empty()) { size_t i = size_t(r.below(cl.et.size())); cl.et.erase(cl.et.begin() + long(i)); count(c_handles_destroyed); }
	api_end();
	if (armed("C11")) { count(c_oracle_evals); check_all_handles("C11.handle-equals-model", "abort", "abort of client " + std::to_string(c)); }
}

void final_check() {
	api_end();
	if (armed("C11") || armed("C12") || armed("C02"))
		check_all_handles(g_profile + ".handle-equals-model", "<final>", "the end of the run");
	else if (armed("C03") || armed("C14") || armed("C05") || armed("C15") || armed("C01") || armed("C06"))
		check_all_languages(g_profile + ".handle-keeps-language", "<final>", "the end of the run");
	for (auto& c : g_clients) {
		for (auto& it : c.iters) if (!it.done && armed("C12")) {
			// drain every unfinished view
			while (!it.done) {
				if (it.kind == 0) { if (!(*it.it != *it.end)) finish_iter(it, "final:all"); else { it.yielded.insert(to_rule(*it.aut, **it.it)); ++(*it.it); } }
				else if (it.kind == 1) { if (!(*it.ait != *it.aend)) finish_iter(it, "final:accept"); else { it.yielded.insert(to_rule(*it.aut, **it.ait)); ++(*it.ait); } }
				else { if (!(*it.dit != *it.dend)) finish_iter(it, "final:down"); else { it.yielded.insert(to_rule(*it.aut, **it.dit)); ++(*it.dit); } }
				if (it.yielded.size() > it.expect.size() + 64) { violation("C12.view-terminates", "final", "view yielded far more rules than exist"); break; }
			}
		}
		for (auto& it : c.iters) it.reset();
		c.iters.clear();
	}
	for (auto& c : g_clients) c.et.clear();
	g_alphas.clear();
}

} // namespace

namespace vsim {
void register_expl_ops() {
	register_op("et_new", op_new); register_op("et_load", op_load); register_op("et_build", op_build);
	register_op("et_copy", op_copy); register_op("et_copy_partial", op_copy_partial); register_op("et_assign", op_assign);
	register_op("et_move_assign", op_move_assign); register_op("et_move_ctor", op_move_ctor);
	register_op("et_destroy", op_destroy); register_op("et_give", op_give);
	register_op("et_add", op_add); register_op("et_copy_from", op_copy_from); register_op("et_final", op_final); register_op("et_finals", op_finals);
	register_op("et_erase_finals", op_erase_finals); register_op("et_clear", op_clear);
	register_op("it_begin", op_it_begin); register_op("it_next", op_it_next); register_op("it_drop", op_it_drop); register_op("it_copy", op_it_copy);
	register_op("et_observe", op_observe);
	register_op("et_union", op_union); register_op("et_union_disj", op_union_disj);
	register_op("et_isect", op_isect); register_op("et_isect_bu", op_isect_bu);
	register_op("et_unreach", op_unreach); register_op("et_useless", op_useless); register_op("et_is_empty", op_is_empty);
	register_op("et_reduce", op_reduce); register_op("et_complement", op_complement); register_op("et_complement_local", op_complement_local); register_op("et_witness", op_witness);
	register_op("et_reindex", op_reindex); register_op("et_reindex_into", op_reindex_into);
	register_op("et_collapse", op_collapse); register_op("et_transl_syms", op_transl_syms);
	register_op("et_twist", op_twist); register_op("et_rejected", op_rejected); register_op("et_sim", op_sim); register_op("et_incl", op_incl); register_op("et_incl_all", op_incl_all);
	register_op("et_repeat", op_repeat); register_op("et_dump", op_dump);
	register_abort_hook(abort_client);
	register_final_hook(final_check);
	register_integrity_hook([](const std::string& oracle, const std::string& site) { check_all_handles(oracle, site, "an unrelated call"); });      // C13: parsing text must not touch any automaton at all
}
}
