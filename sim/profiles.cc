// Property profiles: for each property id, how a plan (environment, clients,
// programs, schedule, faults) is drawn from one seed.
#include "world.hh"
#include "gen.hh"
#include "profiles.hh"
#include <unistd.h>

namespace vsim {
using namespace gen;
using mdl::TA; using mdl::FA;

// ------------------------------------------------------------------ program generator helper
PG::PG(Rng& rr, int c) : r(rr), client(c) {}
int PG::push(const Step& s, int creates_alpha) { out.push_back(s); if (creates_alpha >= 0) { alpha.push_back(creates_alpha); return int(alpha.size()) - 1; } return -1; }
int PG::load(const TA& a, int al) {
	if (r.chance(1, 2)) return push(mk(client, "et_load", {al, long(r.below(2))}, mdl::to_lit(a)), al);
	return push(mk(client, "et_build", {al, long(r.below(100000))}, mdl::to_lit(a)), al);
}
int PG::any() { return alpha.empty() ? 0 : int(r.below(alpha.size())); }
void PG::removed(int h) { if (h >= 0 && size_t(h) < alpha.size()) alpha.erase(alpha.begin() + h); }
int PG::al(int h) { return (h >= 0 && size_t(h) < alpha.size()) ? alpha[size_t(h)] : 0; }

void PG::value_ops(int n) {      // copies, assignments, moves, destroys: what makes handles share storage
	for (int i = 0; i < n; ++i) {
		if (alpha.empty()) return;
		int h = any();
		switch (r.below(8)) {
			case 0: case 1: push(mk(client, "et_copy", {h}), al(h)); break;
			case 2: { int g = any(); push(mk(client, "et_assign", {h, g})); alpha[size_t(h)] = al(g); break; }
			case 3: { int g = any(); if (g != h && alpha.size() > 2) { push(mk(client, "et_move_assign", {h, g})); alpha[size_t(h)] = al(g); removed(g); } break; }
			case 4: { int a0 = al(h); push(mk(client, "et_move_ctor", {h})); removed(h); alpha.push_back(a0); break; }
			case 5: if (alpha.size() > 2) { push(mk(client, "et_destroy", {h})); removed(h); } break;
			case 6: push(mk(client, "et_copy_partial", {h, long(r.below(4))}), al(h)); break;
			default: push(mk(client, "et_assign", {h, h})); break;       // self-assignment
		}
	}
}

std::string rule_lit(Rng& r, const Pool& pool, const std::vector<long>& st) {
	const mdl::Sym& s = r.pick(pool); mdl::Rule x; x.sym = s.first; x.parent = r.pick(st);
	for (int k = 0; k < s.second; ++k) x.ch.push_back(r.pick(st));
	TA t; t.rules.insert(x); return mdl::to_lit(t);
}

void PG::mutate_ops(int n, const Pool& pool) {
	std::vector<long> st = {0, 1, 2, 3, 4, 5, 6, 7, 40, 41};
	for (int i = 0; i < n; ++i) {
		if (alpha.empty()) return;
		int h = any();
		switch (r.below(10)) {
			case 0: case 1: case 2: case 3: push(mk(client, "et_add", {h, long(r.below(2))}, rule_lit(r, pool, st))); break;
			case 4: case 5: push(mk(client, "et_final", {h, r.pick(st)})); break;
			case 6: { TA t; int k = r.range(0, 3); for (int j = 0; j < k; ++j) t.finals.insert(r.pick(st)); push(mk(client, "et_finals", {h}, mdl::to_lit(t))); break; }
			case 7: push(mk(client, "et_erase_finals", {h})); break;
			case 8: if (r.chance(1, 2)) push(mk(client, "et_clear", {h})); else push(mk(client, "et_copy_from", {h, any(), long(r.below(100000)), long(r.below(3))})); break;
			default: push(mk(client, "et_observe", {h, long(r.below(1000))})); break;
		}
	}
}

// "for all automata" includes automata that operations returned: a handle that is the result of a union / intersection with a
// relative, of a trimming, a renumbering or a reduction of `a` (such results share storage with their operands, carry the
// default alphabet, have unusual numberings, unreachable or merged states)
int PG::derived(int a, const TA& A, const Pool& pool) {
	switch (r.below(7)) {
		case 0: { int b = load(derive_ta(r, pool, A, int(r.below(6))), 0); return push(mk(client, "et_union", {a, b, long(r.below(3))}), 0); }
		case 1: { int b = load(derive_ta(r, pool, A, 1 + int(r.below(3))), 0); return push(mk(client, r.chance(1, 2) ? "et_isect" : "et_isect_bu", {a, b, long(r.below(2))}), 0); }
		case 2: return push(mk(client, "et_unreach", {a, long(r.below(2))}), 0);
		case 3: return push(mk(client, "et_useless", {a, long(r.below(2))}), 0);
		case 4: return push(mk(client, "et_reindex", {a, long(r.below(5)), long(r.below(100000)), 0}), 0);
		case 5: return push(mk(client, "et_reduce", {a}), 0);
		default: return push(mk(client, "et_witness", {a}), 0);
	}
}

// a client whose only job is unrelated activity in the same process
std::vector<Step> foreign_program(Rng& r, int client, const Pool& pool, int len) {
	PG g(r, client); TAOpts o; o.max_states = 4;
	for (int i = 0; i < len; ++i) {
		switch (r.below(6)) {
			case 0: case 1: o.sparse = r.chance(1, 3); g.load(gen_ta(r, pool, o), 0); break;
			case 2: g.value_ops(1); break;
			case 3: g.push(mk(client, "churn", {long(r.below(100000)), long(r.range(4, 40))})); break;
			case 4: if (!g.alpha.empty()) g.mutate_ops(1, pool); break;
			default: if (g.alpha.size() > 1) { int h = g.any(); g.push(mk(client, "et_destroy", {h})); g.removed(h); } break;
		}
	}
	return g.out;
}

// a short history of explicit tree automata of one client (used by C13: what is dumped after operations must come back)
std::vector<Step> et_history_program(Rng& r, int c, const Pool& pool, int len) {
	PG g(r, c); TAOpts o; o.max_states = r.range(1, 4);
	g.load(gen_ta(r, pool, o), 0); o.sparse = r.chance(1, 3); g.load(gen_ta(r, pool, o), 0);
	for (int i = 0; i < len; ++i) {
		uint64_t x = r.below(100); int a = g.any(), b = g.any();
		if (x < 12) g.load(gen_ta(r, pool, o), 0);
		else if (x < 25) g.value_ops(1);
		else if (x < 45) g.mutate_ops(1, pool);
		else switch (r.below(9)) {
			case 0: g.push(mk(c, "et_union", {a, b, long(r.below(3))}), 0); break;
			case 1: g.push(mk(c, "et_union_disj", {a, b}), 0); break;
			case 2: g.push(mk(c, "et_isect", {a, b, long(r.below(2))}), 0); break;
			case 3: g.push(mk(c, "et_unreach", {a, long(r.below(2))}), 0); break;
			case 4: g.push(mk(c, "et_useless", {a, long(r.below(2))}), 0); break;
			case 5: g.push(mk(c, "et_reindex", {a, long(r.below(5)), long(r.below(100000)), 0}), 0); break;
			case 6: g.push(mk(c, "et_witness", {a}), 0); break;
			case 7: g.push(mk(c, "et_isect_bu", {a, b, 0}), 0); break;
			default: g.push(mk(c, "et_reduce", {a}), 0); break;
		}
	}
	int k = r.range(2, 5);
	for (int i = 0; i < k; ++i) g.push(mk(c, "et_dump", {long(r.below(16))}));
	return g.out;
}

static void finish_plan(Plan& p, Rng& r, std::vector<std::vector<Step>>& progs, int abort_pct) {
	p.clients = int(progs.size());
	p.steps = interleave(r, progs, int(r.below(3)));
	if (abort_pct > 0 && p.clients > 1 && int(r.below(100)) < abort_pct && p.steps.size() > 4) {
		// client abort: all handles of one client die at an arbitrary step, in a drawn order
		int victim = int(r.below(uint64_t(p.clients)));
		size_t at = size_t(r.range(2, int(p.steps.size()) - 1));
		p.steps.insert(p.steps.begin() + long(at), mk(victim, "abort", {victim, long(r.below(100000))}));
	}
}

// ------------------------------------------------------------------ C01
static Plan plan_C01(Rng& r, const std::string& tier) {
	Plan p; p.env = gen_env(r);
	Pool pool = make_pool(r, 5, r.chance(1, 8) ? 3 : 2);
	int ncl = r.range(1, 3); std::vector<std::vector<Step>> progs;
	bool thorough = tier == "thorough";
	for (int c = 0; c < ncl; ++c) {
		if (c > 0 && r.chance(1, 2)) { progs.push_back(foreign_program(r, c, pool, r.range(3, 12))); continue; }
		PG g(r, c); int ep = r.range(1, 3);
		for (int e = 0; e < ep; ++e) {
			TA A, B; gen_incl_pair(r, pool, r.chance(1, 6) ? (thorough ? 8 : 7) : r.range(2, 5), r.chance(1, 4), A, B);
			if (r.chance(1, 10)) A = r.chance(1, 2) ? wide_pair_smaller(r, B) : repeat_pair_smaller(r, B);      // the shapes that matter for the upward algorithms
			else if (r.chance(1, 10)) monadic_pair(r, A, B);
			if (r.chance(1, 3)) permute_syms(r, A, B);
			int a = g.load(A, 0), b = g.load(B, 0);
			if (r.chance(1, 5)) g.push(cli_step(r, c, 0, 3, mdl::to_lit(A), mdl::to_lit(B)));     // the same question through the real command-line tool
			if (r.chance(1, 4)) g.push(mk(c, "et_copy", {a}), 0);                   // operand shares storage with another handle
			if (r.chance(1, 5)) g.push(mk(c, "churn", {long(r.below(100000)), long(r.range(4, 30))}));
			int k = r.range(1, 3);
			for (int i = 0; i < k; ++i) {
				if (r.chance(1, 2)) g.push(mk(c, "et_incl_all", {a, b, long(r.below(100000))}));
				else if (r.chance(1, 12)) g.push(mk(c, "et_incl", {a, b, 0, 2}));        // CheckInclusion(smaller, bigger) with default parameters
				else g.push(mk(c, "et_incl", {a, b, long(r.below(100) < 88 ? r.below(8) : 8 + r.below(5)), long(r.below(2))}));
				if (r.chance(1, 6)) g.push(mk(c, "et_incl", {b, a, long(r.below(8)), long(r.below(2))}));
			}
			if (r.chance(1, 5)) {
				// an operand that is the RESULT of an earlier operation (trimming, union, intersection, renumbering, reduction, witness), not a freshly loaded automaton
				int src = r.chance(1, 2) ? a : b, x;
				switch (r.below(7)) {
					case 0: x = g.push(mk(c, "et_unreach", {src, long(r.below(2))}), 0); break;
					case 1: x = g.push(mk(c, "et_useless", {src, long(r.below(2))}), 0); break;
					case 2: x = g.push(mk(c, "et_union", {a, b, long(r.below(3))}), 0); break;
					case 3: x = g.push(mk(c, "et_isect", {a, b, long(r.below(2))}), 0); break;
					case 4: x = g.push(mk(c, "et_reindex", {src, long(r.below(5)), long(r.below(100000)), 0}), 0); break;
					case 5: x = g.push(mk(c, "et_reduce", {src}), 0); break;
					default: x = g.push(mk(c, "et_witness", {src}), 0); break;
				}
				g.push(mk(c, "et_incl_all", {x, r.chance(1, 2) ? b : a, long(r.below(100000))}));
				g.push(mk(c, "et_incl", {r.chance(1, 2) ? a : b, x, long(r.below(8)), long(r.below(2))}));
			}
			if (r.chance(1, 6)) {
				// the two operands SHARE their rule storage and differ in their final states only: a copy whose final set is changed
				int a2 = g.push(mk(c, "et_copy", {a}), 0);
				if (r.chance(1, 4)) g.push(mk(c, "et_erase_finals", {a2}));
				{ std::set<long> st = A.states(); std::vector<long> sv(st.begin(), st.end()); int kf = r.range(1, 2); for (int i = 0; i < kf && !sv.empty(); ++i) g.push(mk(c, "et_final", {a2, r.pick(sv)})); }
				g.push(mk(c, "et_incl", {a2, a, long(r.below(8)), long(r.below(2))}));
				g.push(mk(c, "et_incl", {a, a2, long(r.below(8)), long(r.below(2))}));
				if (r.chance(1, 2)) g.push(mk(c, "et_incl_all", {r.chance(1, 2) ? a2 : a, r.chance(1, 2) ? a : a2, long(r.below(100000))}));
			}
			if (r.chance(1, 5)) {
				// one operand OBJECT gets another value (a near relative is copy-assigned over it) and the question is asked again
				g.push(mk(c, "et_twist", {r.chance(1, 2) ? a : b, long(r.below(100000)), long(r.below(4))}));
				if (r.chance(1, 2)) g.push(mk(c, "et_incl_all", {a, b, long(r.below(100000))}));
				else g.push(mk(c, "et_incl", {a, b, long(r.below(8)), long(r.below(2))}));
			}
			if (r.chance(1, 3)) { g.push(mk(c, "et_destroy", {b})); g.removed(b); }
		}
		progs.push_back(g.out);
	}
	finish_plan(p, r, progs, 10);
	return p;
}

// ------------------------------------------------------------------ C02
static Plan plan_C02(Rng& r, const std::string&) {
	Plan p; p.env = gen_env(r);
	Pool pool = make_pool(r, 5, r.chance(1, 8) ? 3 : 2);
	int ncl = r.range(1, 3); std::vector<std::vector<Step>> progs;
	for (int c = 0; c < ncl; ++c) {
		if (c > 0 && r.chance(1, 2)) { progs.push_back(foreign_program(r, c, pool, r.range(3, 10))); continue; }
		PG g(r, c); int ep = r.range(1, 3);
		for (int e = 0; e < ep; ++e) {
			TAOpts o; o.max_states = r.range(1, 5); o.sparse = r.chance(1, 4); if (r.chance(1, 3)) o.base = 0;
			TA A = gen_ta(r, pool, o);
			TA B = r.chance(1, 3) ? derive_ta(r, pool, A, int(r.below(6))) : gen_ta(r, pool, o);     // overlapping numbers on purpose
			int a = g.load(A, 0), b = g.load(B, 0);
			if (r.chance(1, 3)) g.value_ops(1);
			if (r.chance(1, 5)) g.push(cli_step(r, c, 0, 1 + long(r.below(2)), mdl::to_lit(A), mdl::to_lit(B)));
			int k = r.range(1, 3);
			for (int i = 0; i < k; ++i) {
				switch (r.below(4)) {
					case 0: g.push(mk(c, "et_union", {a, b, long(r.below(4))}), 0); break;
					case 1: g.push(mk(c, "et_union_disj", {a, b}), 0); break;
					case 2: g.push(mk(c, "et_isect", {a, b, long(r.below(4))}), 0); break;
					default: g.push(mk(c, "et_isect_bu", {a, b, long(r.below(4))}), 0); break;
				}
			}
			if (r.chance(1, 4)) {
				// "siblings": both operands descend from one automaton by copying and were extended separately afterwards, so they
				// still share most of their rule storage (whole clusters, single tuple sets) although their values differ
				int x = g.push(mk(c, "et_copy", {a}), 0), y = g.push(mk(c, "et_copy", {a}), 0);
				std::set<long> stt = A.states(); std::vector<long> sv(stt.begin(), stt.end()); if (sv.empty()) sv.push_back(0);
				int na = r.range(1, 2), nb = r.range(1, 2);
				for (int i = 0; i < na; ++i) g.push(mk(c, "et_add", {x, long(r.below(2))}, rule_lit(r, pool, sv)));
				for (int i = 0; i < nb; ++i) g.push(mk(c, "et_add", {y, long(r.below(2))}, rule_lit(r, pool, sv)));
				if (r.chance(1, 3)) g.push(mk(c, "et_final", {y, r.pick(sv)}));
				int kk = r.range(1, 3);
				for (int i = 0; i < kk; ++i) {
					switch (r.below(4)) {
						case 0: g.push(mk(c, "et_union", {x, y, long(r.below(4))}), 0); break;
						case 1: case 2: g.push(mk(c, "et_isect", {x, y, long(r.below(2))}), 0); break;
						default: g.push(mk(c, "et_isect_bu", {x, y, long(r.below(2))}), 0); break;
					}
				}
			}
			if (r.chance(1, 5)) {
				// an operand OBJECT gets another value and the operation is asked again
				g.push(mk(c, "et_twist", {r.chance(1, 2) ? a : b, long(r.below(100000)), long(r.below(4))}));
				switch (r.below(4)) {
					case 0: g.push(mk(c, "et_union", {a, b, long(r.below(4))}), 0); break;
					case 1: g.push(mk(c, "et_isect", {a, b, long(r.below(2))}), 0); break;
					case 2: g.push(mk(c, "et_isect_bu", {a, b, long(r.below(2))}), 0); break;
					default: g.push(mk(c, "et_union", {b, a, 0}), 0); break;
				}
			}
			// afterwards: operands and results are mutated / destroyed; everything must keep its value
			if (r.chance(1, 2)) g.mutate_ops(r.range(1, 3), pool);
			if (r.chance(1, 3)) { g.push(mk(c, "et_destroy", {a})); g.removed(a); }
		}
		progs.push_back(g.out);
	}
	finish_plan(p, r, progs, 10);
	return p;
}

// ------------------------------------------------------------------ C03
static Plan plan_C03(Rng& r, const std::string&) {
	Plan p; p.env = gen_env(r);
	Pool pool = make_pool(r, 5, r.chance(1, 8) ? 3 : 2);
	int ncl = r.range(1, 3); std::vector<std::vector<Step>> progs;
	for (int c = 0; c < ncl; ++c) {
		if (c > 0 && r.chance(1, 2)) { progs.push_back(foreign_program(r, c, pool, r.range(3, 10))); continue; }
		PG g(r, c); int ep = r.range(1, 4);
		for (int e = 0; e < ep; ++e) {
			TAOpts o; o.max_states = r.chance(1, 6) ? r.range(8, 40) : r.range(1, 6); o.sparse = r.chance(1, 3);
			if (r.chance(1, 3)) o.flavor = 3 + int(r.below(3));
			if (r.chance(1, 6)) { o.flavor = 6; if (o.max_states < 4) o.max_states = r.range(4, 8); }
			TA A = gen_ta(r, pool, o);
			int a = g.load(A, 0);
			if (r.chance(1, 5) && A.states().size() <= 8) a = g.derived(a, A, pool);      // the questions are asked of a RESULT
			if (r.chance(1, 3)) g.push(mk(c, "et_copy", {a}), 0);
			if (r.chance(1, 5) && A.states().size() <= 8) g.push(cli_step(r, c, 0, 0, mdl::to_lit(A), ""));      // vata [-p|-s] load
			int k = r.range(1, 3);
			for (int i = 0; i < k; ++i) {
				switch (r.below(3)) {
					case 0: g.push(mk(c, "et_unreach", {a, long(r.chance(1, 4) ? 2 : r.below(2))}), 0); break;
					case 1: g.push(mk(c, "et_useless", {a, long(r.chance(1, 4) ? 2 : r.below(2))}), 0); break;
					default: g.push(mk(c, "et_is_empty", {a})); break;
				}
			}
			if (r.chance(1, 2)) g.mutate_ops(r.range(1, 3), pool);     // results share storage with the operand: both must keep their value
			// the questions are asked again of automata with a history: assigned over, moved, copied, modified in place
			if (r.chance(1, 2)) {
				if (r.chance(2, 3)) g.value_ops(r.range(1, 2));
				int q = r.range(1, 3);
				for (int i = 0; i < q && !g.alpha.empty(); ++i) {
					int h = g.any();
					switch (r.below(4)) {
						case 0: g.push(mk(c, "et_unreach", {h, long(r.chance(1, 4) ? 2 : r.below(2))}), 0); break;
						case 1: g.push(mk(c, "et_useless", {h, long(r.chance(1, 4) ? 2 : r.below(2))}), 0); break;
						default: g.push(mk(c, "et_is_empty", {h})); break;
					}
				}
			}
			if (r.chance(1, 4) && !g.alpha.empty()) { int h = g.any(); g.push(mk(c, "et_destroy", {h})); g.removed(h); }
		}
		progs.push_back(g.out);
	}
	finish_plan(p, r, progs, 10);
	return p;
}

// ------------------------------------------------------------------ C04
static Plan plan_C04(Rng& r, const std::string&) {
	Plan p; p.env = gen_env(r);
	Pool pool = make_pool(r, 5, r.chance(1, 6) ? 3 : 2);
	int ncl = r.range(1, 3); std::vector<std::vector<Step>> progs;
	for (int c = 0; c < ncl; ++c) {
		if (c > 0 && r.chance(1, 2)) { progs.push_back(foreign_program(r, c, pool, r.range(3, 10))); continue; }
		PG g(r, c); int ep = r.range(1, 3);
		for (int e = 0; e < ep; ++e) {
			TAOpts o; o.max_states = r.chance(1, 5) ? r.range(17, 40) : r.range(1, 7); o.sparse = r.chance(1, 3);
			if (o.max_states > 10) o.max_rules = 3 * o.max_states;
			TA A = gen_ta(r, pool, o);
			int a = g.load(A, 0);
			if (r.chance(1, 6)) g.push(mk(c, "et_rejected", {g.any(), 1}));      // a ComputeSimulation call the library turns down (unset parameters)
			int k = r.range(1, 3);
			for (int i = 0; i < k; ++i) g.push(mk(c, "et_sim", {a, long(r.below(2)), long(r.below(100000)), long(r.below(4)) + (r.chance(1, 4) ? 4 : 0)}));
			if (r.chance(1, 4)) {
				// the same OBJECT asked again after a near relative of A (same states, a rule or two tweaked) was assigned over it
				TA B = derive_ta(r, pool, A, 3); if (r.chance(1, 2)) B = derive_ta(r, pool, B, r.chance(1, 2) ? 3 : 2);
				long d = long(r.below(2));
				g.push(mk(c, "et_sim", {a, d, long(r.below(100000)), 2 + long(r.below(2))}));
				int b = g.load(B, 0);
				g.push(mk(c, "et_assign", {a, b}));
				g.push(mk(c, "et_sim", {a, d, long(r.below(100000)), 2 + long(r.below(2))}));
			}
			if (r.chance(1, 5)) g.push(cli_step(r, c, 0, 7, mdl::to_lit(A), ""));      // vata [-s] -o dir=down|up sim
			if (r.chance(1, 4)) g.push(mk(c, "churn", {long(r.below(100000)), long(r.range(4, 30))}));
		}
		progs.push_back(g.out);
	}
	finish_plan(p, r, progs, 5);
	return p;
}

// ------------------------------------------------------------------ C05
static Plan plan_C05(Rng& r, const std::string&) {
	Plan p; p.env = gen_env(r);
	Pool pool = make_pool(r, 5, r.chance(1, 6) ? 3 : 2);
	int ncl = r.range(1, 3); std::vector<std::vector<Step>> progs;
	for (int c = 0; c < ncl; ++c) {
		if (c > 0 && r.chance(1, 2)) { progs.push_back(foreign_program(r, c, pool, r.range(3, 10))); continue; }
		PG g(r, c); int ep = r.range(1, 3);
		for (int e = 0; e < ep; ++e) {
			TAOpts o; o.max_states = r.chance(1, 6) ? r.range(9, 30) : r.range(1, 6); o.sparse = r.chance(1, 2);
			TA A = gen_ta(r, pool, o);
			// several simulation-equivalent states: split some
			int sp = r.range(0, 3); for (int i = 0; i < sp; ++i) A = derive_ta(r, pool, A, 4);
			int a = g.load(A, 0);
			if (r.chance(1, 3)) g.push(mk(c, "et_copy", {a}), 0);
			if (r.chance(1, 5)) g.push(mk(c, "et_rejected", {g.any(), 0}));      // a Reduce call the library turns down (unset parameters) before the ordinary ones
			g.push(mk(c, "et_reduce", {a}), 0);
			if (r.chance(1, 5) && A.states().size() <= 8) { int x = g.derived(a, A, pool); g.push(mk(c, "et_reduce", {x}), 0); }      // Reduce of a RESULT
			if (r.chance(1, 6) && A.states().size() <= 8) g.push(cli_step(r, c, 0, 6, mdl::to_lit(A), ""));      // vata red
			if (r.chance(1, 3)) {
				// the same OBJECT reduced again after it got another value: a near relative of A (same states, one or two rules
				// tweaked, so that other states are simulation-equivalent) is assigned or moved over it, or it is modified in place
				TA B = derive_ta(r, pool, A, 3); if (r.chance(1, 2)) B = derive_ta(r, pool, B, r.chance(1, 2) ? 3 : 2);
				int b = g.load(B, 0);
				switch (r.below(4)) {
					case 0: case 1: g.push(mk(c, "et_assign", {a, b})); break;
					case 2: g.push(mk(c, "et_move_assign", {a, b})); g.removed(b); if (b < a) --a; break;
					default: g.mutate_ops(1, pool); break;
				}
				g.push(mk(c, "et_reduce", {a}), 0);
			}
			if (r.chance(1, 3)) g.mutate_ops(1, pool);
		}
		progs.push_back(g.out);
	}
	finish_plan(p, r, progs, 5);
	return p;
}

// ------------------------------------------------------------------ C06
static Plan plan_C06(Rng& r, const std::string&) {
	Plan p; p.env = gen_env(r);
	Pool pool = make_pool(r, 4, 2);
	if (r.chance(1, 8)) for (auto& s : pool) s.second = 0;     // alphabet with only nullary symbols
	int ncl = r.range(1, 3); std::vector<std::vector<Step>> progs;
	int shared_alpha = r.chance(1, 2) ? 0 : 1;
	for (int c = 0; c < ncl; ++c) {
		PG g(r, c); int ep = r.range(1, 2);
		for (int e = 0; e < ep; ++e) {
			// few symbols: the construction enumerates choice functions per symbol
			Pool mine; for (auto& s : pool) if (r.chance(2, 3)) mine.push_back(s); if (mine.empty()) mine.push_back(pool[0]);
			TAOpts o; o.max_states = r.range(1, 4); o.max_rules = r.range(1, 6); o.sparse = r.chance(1, 4);
			TA A = gen_ta(r, mine, o);
			if (r.chance(1, 10)) { A = TA(); A.finals.insert(0); for (auto& s : mine) { mdl::Rule x; x.sym = s.first; x.parent = 0; x.ch.assign(size_t(s.second), 0); A.rules.insert(x); } }  // universal
			int al = r.chance(3, 4) ? shared_alpha : 2 + c;
			int a = g.load(A, al);
			// other symbols get registered in the alphabet between load and complement
			if (r.chance(1, 2)) { TAOpts o2; o2.max_states = 2; o2.max_rules = 2; g.load(gen_ta(r, pool, o2), al); }
			g.push(mk(c, "et_complement", {a}), al == 0 ? 0 : -1);
			if (r.chance(1, 6)) { g.push(mk(c, "et_twist", {a, long(r.below(100000)), long(r.below(4))})); g.push(mk(c, "et_complement", {a}), al == 0 ? 0 : -1); }      // the same object complemented again after it got another value
			if (r.chance(1, 6)) g.push(cli_step(r, c, 0, 5, mdl::to_lit(A), ""));      // vata cmpl (over the default alphabet)
			if (r.chance(1, 3)) {
				// short-lived private alphabets: each step creates an alphabet, loads an automaton over it, registers further symbols,
				// complements and lets everything go; the next alphabet (other symbols, other ranks, often as many) may be handed the same address
				int kk = r.range(2, 5);
				for (int i = 0; i < kk; ++i) {
					Pool lp = make_pool(r, 4, 2); TAOpts o3; o3.max_states = r.range(1, 3); o3.max_rules = r.range(1, 5);
					g.push(mk(c, "et_complement_local", {long(r.below(4)), long(r.below(256))}, mdl::to_lit(gen_ta(r, lp, o3))));
				}
			}
			if (r.chance(1, 4)) g.push(mk(c, "churn", {long(r.below(100000)), long(r.range(4, 30))}));
		}
		progs.push_back(g.out);
	}
	finish_plan(p, r, progs, 5);
	return p;
}

// ------------------------------------------------------------------ C11
static Plan plan_C11(Rng& r, const std::string&) {
	Plan p; p.env = gen_env(r);
	Pool pool = make_pool(r, 5, r.chance(1, 8) ? 3 : 2);
	int ncl = r.range(1, 4); std::vector<std::vector<Step>> progs;
	for (int c = 0; c < ncl; ++c) {
		if (r.chance(1, 3)) { progs.push_back(fa_history_program(r, c, ncl, r.range(6, 22))); continue; }     // finite-automaton handles
		PG g(r, c); int len = r.range(6, 22);
		TAOpts o; o.max_states = r.range(1, 5);
		g.load(gen_ta(r, pool, o), 0);
		for (int i = 0; i < len; ++i) {
			uint64_t x = r.below(100);
			if (x < 10) { o.sparse = r.chance(1, 3); g.load(gen_ta(r, pool, o), 0); }
			else if (x < 35) g.value_ops(1);
			else if (x < 65) g.mutate_ops(1, pool);
			else if (x < 70 && ncl > 1) { int h = g.any(); g.push(mk(c, "et_give", {h, long(r.below(uint64_t(ncl)))})); }
			else if (x < 90 && !g.alpha.empty()) {
				int a = g.any(), b = g.any();
				switch (r.below(11)) {
					case 0: g.push(mk(c, "et_union", {a, b, long(r.below(3))}), 0); break;
					case 1: g.push(mk(c, "et_union_disj", {a, b}), 0); break;
					case 2: g.push(mk(c, "et_isect", {a, b, long(r.below(2))}), 0); break;
					case 3: g.push(mk(c, "et_unreach", {a, long(r.below(2))}), 0); break;
					case 4: g.push(mk(c, "et_useless", {a, long(r.below(2))}), 0); break;
					case 5: g.push(mk(c, "et_reindex", {a, long(r.below(5)), long(r.below(100000)), 0}), 0); break;
					case 6: g.push(mk(c, "et_is_empty", {a})); break;
					case 7: g.push(mk(c, "et_incl", {a, b, long(r.below(8)), long(r.below(2))})); break;
					case 8: g.push(mk(c, "et_witness", {a}), 0); break;
					case 9: if (g.alpha.size() > 1 && a != b) g.push(mk(c, "et_reindex_into", {a, b, long(r.below(4)), long(r.below(100000)), long(r.below(2))})); break;
					default: g.push(mk(c, "et_reduce", {a}), 0); break;
				}
			}
			else if (x < 95) g.push(mk(c, "et_repeat", {long(r.below(64))}));
			else g.push(mk(c, "churn", {long(r.below(100000)), long(r.range(4, 30))}));
		}
		progs.push_back(g.out);
	}
	finish_plan(p, r, progs, 30);
	return p;
}

// ------------------------------------------------------------------ C12
static Plan plan_C12(Rng& r, const std::string&) {
	Plan p; p.env = gen_env(r);
	Pool pool = make_pool(r, 5, r.chance(1, 6) ? 3 : 2);
	// one symbol number used with several arities: names starting with 'm'
	Pool mpool = pool; mpool.push_back(mdl::Sym("m", 0)); mpool.push_back(mdl::Sym("m", 1)); mpool.push_back(mdl::Sym("m", 2)); if (r.chance(1, 2)) mpool.push_back(mdl::Sym("mm", 1));
	int ncl = r.range(1, 3); std::vector<std::vector<Step>> progs;
	for (int c = 0; c < ncl; ++c) {
		PG g(r, c); int len = r.range(8, 26);
		const Pool& pl = r.chance(1, 2) ? mpool : pool;
		g.push(mk(c, "et_new", {0}), 0);
		if (r.chance(1, 2)) { TAOpts o; o.max_states = r.range(1, 6); g.load(gen_ta(r, pool, o), 0); }
		int iters = 0;
		for (int i = 0; i < len; ++i) {
			uint64_t x = r.below(100);
			if (x < 45) g.mutate_ops(1, pl);
			else if (x < 55) g.push(mk(c, "et_observe", {g.any(), long(r.below(100000))}));
			else if (x < 67) { g.push(mk(c, "it_begin", {g.any(), long(r.below(3)), long(r.below(50)), long(r.below(1000))})); ++iters; }
			else if (x < 85 && iters) g.push(mk(c, "it_next", {long(r.below(8)), long(r.range(1, 4))}));
			else if (x < 87 && iters) { g.push(mk(c, "it_drop", {long(r.below(8))})); --iters; }
			else if (x < 89 && iters) { g.push(mk(c, "it_copy", {long(r.below(8))})); ++iters; }
			else if (x < 95) g.value_ops(1);          // sharing copies, mutated by this or (after give) other clients between two increments
			else if (ncl > 1) g.push(mk(c, "et_give", {g.any(), long(r.below(uint64_t(ncl)))}));
		}
		progs.push_back(g.out);
	}
	finish_plan(p, r, progs, 15);
	return p;
}

// ------------------------------------------------------------------ C14
static Plan plan_C14(Rng& r, const std::string&) {
	Plan p; p.env = gen_env(r);
	Pool pool = make_pool(r, 6, r.chance(1, 6) ? 3 : 2);
	int ncl = r.range(1, 3); std::vector<std::vector<Step>> progs;
	for (int c = 0; c < ncl; ++c) {
		if (c > 0 && r.chance(1, 2)) { progs.push_back(foreign_program(r, c, pool, r.range(3, 10))); continue; }
		PG g(r, c); int ep = r.range(1, 3);
		for (int e = 0; e < ep; ++e) {
			TAOpts o; o.max_states = r.chance(1, 6) ? r.range(8, 25) : r.range(1, 6); o.sparse = r.chance(1, 3);
			int a = g.load(gen_ta(r, pool, o), 0);
			int k = r.range(1, 3);
			for (int i = 0; i < k; ++i) {
				switch (r.below(5)) {
					case 0: case 1: g.push(mk(c, "et_reindex", {a, long(r.below(5)), long(r.below(100000)), long(r.below(4))}), 0); break;
					case 2: g.push(mk(c, "et_collapse", {a, long(r.below(100000)), long(r.below(4))}), 0); break;
					case 3: g.push(mk(c, "et_transl_syms", {a, long(r.below(100000)), long(r.below(4))}), 0); break;
					default: {
						// destination that already holds rules and shares clusters with another handle
						int d = g.load(gen_ta(r, pool, o), 0); if (r.chance(1, 2)) g.push(mk(c, "et_copy", {d}), 0);
						g.push(mk(c, "et_reindex_into", {a, d, long(r.below(4)), long(r.below(100000)), long(r.below(2))}));
						break; }
				}
			}
			if (r.chance(1, 5) && o.max_states <= 8) {
				// renaming a RESULT
				TAOpts o4 = o; TA A4 = gen_ta(r, pool, o4); int a4 = g.load(A4, 0); int x = g.derived(a4, A4, pool);
				switch (r.below(3)) {
					case 0: g.push(mk(c, "et_reindex", {x, long(r.below(5)), long(r.below(100000)), long(r.below(2))}), 0); break;
					case 1: g.push(mk(c, "et_collapse", {x, long(r.below(100000)), long(r.below(4))}), 0); break;
					default: g.push(mk(c, "et_transl_syms", {x, long(r.below(100000)), long(r.below(4))}), 0); break;
				}
			}
			if (r.chance(1, 5)) {
				g.push(mk(c, "et_twist", {a, long(r.below(100000)), long(r.below(4))}));
				switch (r.below(3)) {
					case 0: g.push(mk(c, "et_reindex", {a, long(r.below(5)), long(r.below(100000)), long(r.below(2))}), 0); break;
					case 1: g.push(mk(c, "et_collapse", {a, long(r.below(100000)), long(r.below(4))}), 0); break;
					default: g.push(mk(c, "et_transl_syms", {a, long(r.below(100000)), long(r.below(4))}), 0); break;
				}
			}
			if (r.chance(1, 3)) g.mutate_ops(1, pool);
		}
		progs.push_back(g.out);
	}
	finish_plan(p, r, progs, 5);
	return p;
}

// ------------------------------------------------------------------ C15
static Plan plan_C15(Rng& r, const std::string&) {
	Plan p; p.env = gen_env(r);
	Pool pool = make_pool(r, 5, r.chance(1, 6) ? 3 : 2);
	int ncl = r.range(1, 3); std::vector<std::vector<Step>> progs;
	for (int c = 0; c < ncl; ++c) {
		if (c > 0 && r.chance(1, 2)) { progs.push_back(foreign_program(r, c, pool, r.range(3, 10))); continue; }
		PG g(r, c); int ep = r.range(1, 4);
		for (int e = 0; e < ep; ++e) {
			TAOpts o; o.max_states = r.chance(1, 8) ? r.range(8, 14) : r.range(1, 6); o.sparse = r.chance(1, 3);
			if (r.chance(1, 2)) o.flavor = int(r.below(6));
			if (r.chance(1, 3)) { o.flavor = 6; o.max_states = r.range(4, 8); }      // layered with back edges: deep witnesses, circular justifications possible
			TA W = gen_ta(r, pool, o); int a = g.load(W, 0);
			g.push(mk(c, "et_witness", {a}), 0);
			if (r.chance(1, 5)) { g.push(mk(c, "et_twist", {a, long(r.below(100000)), long(r.below(4))})); g.push(mk(c, "et_witness", {a}), 0); }      // the same object asked again after it got another value
			if (r.chance(1, 5) && W.states().size() <= 8) { int x = g.derived(a, W, pool); g.push(mk(c, "et_witness", {x}), 0); }      // the witness of a RESULT
			if (r.chance(1, 6)) g.push(cli_step(r, c, 0, 4, mdl::to_lit(W), ""));      // vata witness
			if (r.chance(1, 4)) g.mutate_ops(1, pool);
		}
		progs.push_back(g.out);
	}
	finish_plan(p, r, progs, 5);
	return p;
}

// ------------------------------------------------------------------ dispatch
Plan generate_plan(const std::string& profile, const std::string& tier, uint64_t seed) {
	Rng r(mix64(seed, hash_str(profile)));
	Plan p;
	if (profile == "C01") p = plan_C01(r, tier);
	else if (profile == "C02") p = plan_C02(r, tier);
	else if (profile == "C03") p = plan_C03(r, tier);
	else if (profile == "C04") p = plan_C04(r, tier);
	else if (profile == "C05") p = plan_C05(r, tier);
	else if (profile == "C06") p = plan_C06(r, tier);
	else if (profile == "C11") p = plan_C11(r, tier);
	else if (profile == "C12") p = plan_C12(r, tier);
	else if (profile == "C14") p = plan_C14(r, tier);
	else if (profile == "C15") p = plan_C15(r, tier);
	else if (!generate_plan_ext(profile, tier, r, p)) { fprintf(stderr, "unknown profile %s\n", profile.c_str()); _exit(3); }
	p.profile = profile; p.tier = tier; p.seed = seed;
	return p;
}

std::vector<std::string> all_profiles() {
	return {"C01", "C02", "C03", "C04", "C05", "C06", "C07", "C08", "C09", "C10", "C11", "C12", "C13", "C14", "C15", "C17", "C18", "C19", "C20"};
}

} // namespace vsim
