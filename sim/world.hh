// vsim world: op registry, step loop, client bookkeeping shared by all ops_*.cc
#pragma once
#include <set>
#include "core.hh"
#include "model.hh"

namespace vsim {

typedef void (*OpFn)(const Step&);
void register_op(const std::string& name, OpFn f);
void register_abort_hook(void (*f)(int client, uint64_t order_seed));   // destroy every handle of the client
void register_final_hook(void (*f)());                                  // end-of-run checks, in registration order
void register_integrity_hook(void (*f)(const std::string& oracle, const std::string& site));   // every live handle of the module still equals its model
std::vector<void (*)(const std::string&, const std::string&)>& integrity_hooks();

extern std::string g_profile;      // property id of the running check ("C01" ...), or "ALL"
extern std::string g_tier;
extern int g_nclients;
extern const Plan* g_plan;

// Is the oracle family of property `prop` armed in this run?  Each check
// arms exactly the oracles of its own property; crashes, sanitizer reports and
// hangs are always armed and reported under the running profile.
inline bool armed(const char* prop) { return g_profile == prop || g_profile == "ALL"; }

// Called by an op immediately before the real API call(s) it makes, and right
// after them.  Between the two, exhausting the step's tick budget is a hang
// (unless api_site() says the algorithm is legitimately exponential); outside,
// the harness's own (oracle) computations run and exhausting the budget only
// makes the run inconclusive.
void api_begin();
void api_end();

// exception classes an op may declare as expected
struct Skip {};                    // step not applicable in the current state (counted as no-op)

// registration functions of the op modules
void register_expl_ops();
void register_fa_ops();
void register_bdd_ops();
void register_mtbdd_ops();
void register_text_ops();
void register_corpus_ops();
void register_cli_ops();
Step cli_step(Rng& r, int client, long rep, long cmd, const std::string& lit_a, const std::string& lit_b);
const std::string& cli_dir();            // run-private scratch directory of the command-line steps (RAM-backed when possible)

// text store shared by all modules (simfs)
struct Blob { std::string bytes; std::string kind; std::string model_lit; int owner = 0; bool has_starts = false; std::set<std::string> api_starts; /* word automata: names of GetStartStates() at dump time */ };
std::vector<Blob>& blobs();

} // namespace vsim
