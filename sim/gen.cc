#include "gen.hh"
#include <algorithm>

namespace gen {
using mdl::TA; using mdl::Rule; using mdl::FA; using mdl::Edge;

Pool make_pool(Rng& r, int max_syms, int max_rank) {
	static const char* names[] = {"a", "b", "c", "d", "e", "f", "g", "h"};
	int n = r.range(2, max_syms < 2 ? 2 : max_syms); Pool p;
	for (int i = 0; i < n; ++i) {
		int rank;
		if (i == 0) rank = 0;
		else { uint64_t x = r.below(100); rank = x < 30 ? 0 : (x < 55 ? 1 : (x < 93 ? 2 : 3)); if (rank > max_rank) rank = max_rank; }
		p.push_back(mdl::Sym(names[i], rank));
	}
	return p;
}

static std::vector<long> state_ids(Rng& r, int n, const TAOpts& o) {
	std::vector<long> v;
	if (!o.sparse) { for (int i = 0; i < n; ++i) v.push_back(o.base + i); return v; }
	std::set<long> s; while (int(s.size()) < n) s.insert(long(r.below(1500)));
	v.assign(s.begin(), s.end());
	for (size_t i = v.size(); i > 1; --i) std::swap(v[i - 1], v[r.below(i)]);
	return v;
}

TA gen_ta(Rng& r, const Pool& pool, const TAOpts& o) {
	TA a; int flavor = o.flavor >= 0 ? o.flavor : int(r.below(20));
	int n = (r.chance(1, 30) || o.max_states == 0) ? 0 : r.range(1, o.max_states);
	std::vector<long> st = state_ids(r, n, o);
	if (n == 0) { if (r.chance(1, 2) && flavor == 0) a.finals.insert(o.base); return a; }
	// the automaton uses a drawn subset of the pool
	Pool mine; for (const mdl::Sym& s : pool) if (r.chance(3, 4)) mine.push_back(s);
	if (mine.empty()) mine.push_back(pool[r.below(pool.size())]);
	std::vector<mdl::Sym> nullary, others;
	for (const mdl::Sym& s : mine) (s.second == 0 ? nullary : others).push_back(s);
	int m = o.max_rules >= 0 ? r.range(0, o.max_rules) : r.range(0, 2 * n + 3);
	if (flavor == 6 && n >= 3 && !nullary.empty() && !others.empty()) {
		// layered with back edges: layer 0 owns the leaf rules, every higher state is first justified by a rule over
		// LOWER states (often of arity >= 2) and additionally owns rules that lead back to itself or upwards (often of
		// lower arity); the only final state is the top one, several steps above the leaves
		std::vector<mdl::Sym> unary, wide; for (const mdl::Sym& s : others) (s.second == 1 ? unary : wide).push_back(s);
		int l0 = r.range(1, n > 4 ? 2 : 1);
		for (int i = 0; i < l0; ++i) { Rule x; x.sym = r.pick(nullary).first; x.parent = st[size_t(i)]; a.rules.insert(x); if (r.chance(1, 3)) { Rule y; y.sym = r.pick(nullary).first; y.parent = st[size_t(i)]; a.rules.insert(y); } }
		for (int i = l0; i < n; ++i) {
			const mdl::Sym& s = (!wide.empty() && r.chance(2, 3)) ? r.pick(wide) : r.pick(others);
			Rule x; x.sym = s.first; x.parent = st[size_t(i)]; for (int k = 0; k < s.second; ++k) x.ch.push_back(st[size_t(r.below(uint64_t(i)))]); a.rules.insert(x);
			int back = r.range(0, 2);
			for (int b = 0; b < back; ++b) {
				const mdl::Sym& t = (!unary.empty() && r.chance(2, 3)) ? r.pick(unary) : r.pick(others);
				Rule y; y.sym = t.first; y.parent = st[size_t(r.range(l0, i))]; for (int k = 0; k < t.second; ++k) y.ch.push_back(st[size_t(r.range(i, n - 1))]); a.rules.insert(y);
			}
		}
		a.finals.insert(st[size_t(n - 1)]); if (r.chance(1, 4)) a.finals.insert(r.pick(st));
		return a;
	}
	if (flavor == 1) {                      // leaf-only language
		for (int i = 0; i < m && !nullary.empty(); ++i) { Rule x; x.sym = r.pick(nullary).first; x.parent = r.pick(st); a.rules.insert(x); }
	} else {
		for (int i = 0; i < m; ++i) {
			const mdl::Sym& s = (!nullary.empty() && r.chance(2, 5)) ? r.pick(nullary) : r.pick(mine);
			Rule x; x.sym = s.first; x.parent = r.pick(st);
			for (int k = 0; k < s.second; ++k) x.ch.push_back(r.pick(st));
			a.rules.insert(x);
		}
		if (flavor == 2 && !others.empty() && n >= 2) {   // needs deep trees: a chain
			for (int i = 0; i + 1 < n; ++i) { const mdl::Sym& s = r.pick(others); Rule x; x.sym = s.first; x.parent = st[size_t(i + 1)]; for (int k = 0; k < s.second; ++k) x.ch.push_back(st[size_t(i)]); a.rules.insert(x); }
			if (!nullary.empty()) { Rule x; x.sym = nullary[0].first; x.parent = st[0]; a.rules.insert(x); }
			a.finals.insert(st[size_t(n - 1)]);
		}
	}
	// final states
	uint64_t f = r.below(20);
	if (f == 0) { /* none */ }
	else if (f == 1) a.finals.insert(st.begin(), st.end());
	else for (long q : st) if (r.chance(1, 3)) a.finals.insert(q);
	if (flavor == 3) a.finals.insert(st.back() + 1 + long(r.below(3)));       // a final state that owns no rule and occurs nowhere else
	if (flavor == 4 && !others.empty()) {                                       // an unproductive state with rules
		const mdl::Sym& s = r.pick(others); long u = st.back() + 5; Rule x; x.sym = s.first; x.parent = u; for (int k = 0; k < s.second; ++k) x.ch.push_back(u); a.rules.insert(x);
		if (r.chance(1, 2)) a.finals.insert(u);
	}
	if (flavor == 5 && !nullary.empty()) {                                      // unreachable but productive state
		long u = st.back() + 9; Rule x; x.sym = nullary[0].first; x.parent = u; a.rules.insert(x);
	}
	return a;
}

TA derive_ta(Rng& r, const Pool& pool, const TA& a, int kind) {
	TA b = a; std::set<long> ss = a.states(); std::vector<long> st(ss.begin(), ss.end());
	if (st.empty()) st.push_back(0);
	if (kind == 6) {
		// Two disjoint copies of A united, then cross-linked and perturbed: the bigger automaton offers
		// several nondeterministic ways to match every rule, some of which fail deep inside.  This is the
		// shape on which coinductive hypotheses, antichain pruning and result caches of the inclusion
		// algorithms actually matter (a refuted alternative must not leave conclusions behind).
		if (ss.empty()) return b;
		long off = *ss.rbegin() + 1; std::map<long, long> m; for (long q : ss) m[q] = q + off;
		TA c2 = mdl::rename(a, m); b = mdl::unite(a, c2);
		std::vector<Rule> rules(b.rules.begin(), b.rules.end());
		int k = r.range(1, 3);
		for (int i = 0; i < k && !rules.empty(); ++i) {
			Rule x = rules[r.below(rules.size())];
			switch (r.below(4)) {
				case 0: if (!x.ch.empty()) { Rule y = x; size_t j = size_t(r.below(y.ch.size())); y.ch[j] = y.ch[j] >= off ? y.ch[j] - off : y.ch[j] + off; b.rules.insert(y); } break;     // extra rule crossing the copies
				case 1: if (!x.ch.empty()) { b.rules.erase(x); size_t j = size_t(r.below(x.ch.size())); x.ch[j] = x.ch[j] >= off ? x.ch[j] - off : x.ch[j] + off; b.rules.insert(x); } break; // a rule redirected into the other copy
				case 2: if (x.ch.empty()) { b.rules.erase(x); std::vector<mdl::Sym> nul; for (auto& y : pool) if (y.second == 0) nul.push_back(y); if (!nul.empty()) x.sym = r.pick(nul).first; b.rules.insert(x); } break;  // another leaf symbol in one copy
				default: b.rules.erase(x); break;                                                                                                                   // a rule missing in one copy
			}
		}
		if (r.chance(1, 2)) { std::set<long> f; for (long q : b.finals) if (q < off || r.chance(1, 2)) f.insert(q); b.finals = f; }
		return b;
	}
	switch (kind % 6) {
		case 0: break;                                     // same automaton
		case 1: {                                          // superset: extra rules / finals
			int k = r.range(1, 3);
			for (int i = 0; i < k; ++i) { const mdl::Sym& s = r.pick(pool); Rule x; x.sym = s.first; x.parent = r.pick(st); for (int j = 0; j < s.second; ++j) x.ch.push_back(r.pick(st)); b.rules.insert(x); }
			if (r.chance(1, 2)) b.finals.insert(r.pick(st));
			break; }
		case 2: {                                          // subset: drop a rule or a final state
			if (!b.rules.empty() && r.chance(2, 3)) { auto it = b.rules.begin(); std::advance(it, long(r.below(b.rules.size()))); b.rules.erase(it); }
			else if (!b.finals.empty()) { auto it = b.finals.begin(); std::advance(it, long(r.below(b.finals.size()))); b.finals.erase(it); }
			break; }
		case 3: {                                          // tweak one rule
			if (!b.rules.empty()) { auto it = b.rules.begin(); std::advance(it, long(r.below(b.rules.size()))); Rule x = *it; b.rules.erase(it);
				if (!x.ch.empty() && r.chance(1, 2)) x.ch[r.below(x.ch.size())] = r.pick(st); else x.parent = r.pick(st); b.rules.insert(x); }
			break; }
		case 4: {                                          // split: duplicate a state's rules under a fresh state (same language, more nondeterminism)
			if (ss.empty()) break; long q = r.pick(st), nq = *ss.rbegin() + 1;
			std::vector<Rule> add;
			for (const Rule& x : b.rules) { if (x.parent == q) { Rule y = x; y.parent = nq; add.push_back(y); } }
			for (const Rule& x : b.rules) for (size_t i = 0; i < x.ch.size(); ++i) if (x.ch[i] == q && r.chance(1, 2)) { Rule y = x; y.ch[i] = nq; add.push_back(y); }
			b.rules.insert(add.begin(), add.end()); if (b.finals.count(q)) b.finals.insert(nq);
			break; }
		default: {                                         // bijective renaming
			std::vector<long> p(st); for (size_t i = p.size(); i > 1; --i) std::swap(p[i - 1], p[r.below(i)]);
			std::map<long, long> m; for (size_t i = 0; i < st.size(); ++i) m[st[i]] = p[i]; b = mdl::rename(a, m);
			break; }
	}
	return b;
}

// Pairs shaped so that each child position of a binary rule carries several
// distinct macro-states in an upward inclusion check: k leaves into q1, k
// leaves into q2, f(q1,q2)->qf in the smaller automaton; the bigger automaton
// splits every leaf into its own state and keeps a drawn subset of f-rules.
TA wide_pair_smaller(Rng& r, TA& bigger) {
	TA a; bigger = TA(); int k1 = r.range(1, 3), k2 = r.range(1, 3);
	static const char* L[] = {"a", "b", "c", "d", "e", "g"};
	bool shared_leaves = r.chance(1, 4);
	for (int i = 0; i < k1; ++i) { Rule x; x.sym = L[i]; x.parent = 1; a.rules.insert(x); }
	for (int i = 0; i < k2; ++i) { Rule x; x.sym = shared_leaves ? L[i] : L[3 + i]; x.parent = 2; a.rules.insert(x); }
	{ Rule x; x.sym = "f"; x.parent = 0; x.ch = {1, 2}; a.rules.insert(x); } a.finals.insert(0);
	// bigger: states 10+i for left leaves, 20+j for right leaves
	for (int i = 0; i < k1; ++i) { Rule x; x.sym = L[i]; x.parent = 10 + i; bigger.rules.insert(x); }
	for (int j = 0; j < k2; ++j) { Rule x; x.sym = shared_leaves ? L[j] : L[3 + j]; x.parent = 20 + j; bigger.rules.insert(x); }
	int dropped = 0;
	for (int i = 0; i < k1; ++i) for (int j = 0; j < k2; ++j) {
		if (r.chance(1, 4) && dropped < 2) { ++dropped; continue; }
		Rule x; x.sym = "f"; x.parent = 30; x.ch = {10 + i, 20 + j}; bigger.rules.insert(x);
	}
	bigger.finals.insert(30);
	if (r.chance(1, 3)) { Rule x; x.sym = "f"; x.parent = 0; x.ch = {0, 2}; a.rules.insert(x); Rule y; y.sym = "f"; y.parent = 30; y.ch = {30, 20}; bigger.rules.insert(y); }
	return a;
}

void gen_incl_pair(Rng& r, const Pool& pool, int max_states, bool sparse, TA& A, TA& B) {
	TAOpts o; o.max_states = max_states; o.sparse = sparse; if (r.chance(1, 2)) o.max_rules = 3 * max_states + 3;
	if (r.chance(1, 7)) o.max_rules = r.range(6, 12) * (max_states > 5 ? 5 : max_states);      // dense: many rules per state (several ways to match every rule; long-lived and short-lived macro-states side by side)
	A = gen_ta(r, pool, o);
	uint64_t x = r.below(100);
	if (x < 40) { B = derive_ta(r, pool, A, r.chance(1, 2) ? 2 : 3); if (r.chance(1, 3)) B = derive_ta(r, pool, B, r.chance(1, 2) ? 2 : 3); }     // near miss
	else if (x < 52) B = derive_ta(r, pool, A, 1);                                                                                             // superset
	else if (x < 68) { TAOpts o2 = o; o2.max_states = max_states > 4 ? 4 : max_states; if (max_states > 4) A = gen_ta(r, pool, o2); B = derive_ta(r, pool, A, 6); }   // two cross-linked copies
	else if (x < 78) B = derive_ta(r, pool, A, int(r.below(6)));
	else B = gen_ta(r, pool, o);
	if (r.chance(1, 10)) std::swap(A, B);
}

// Pairs in which ONE state of the smaller automaton stands at several child positions of a rule (f(q,q)->r) and
// acquires several incomparable macro-states one after the other (a unary detour g(q)->q1, g(q1)->q makes the
// later ones appear only after the earlier ones were processed).  The bigger automaton is a g-chain whose
// states are the macro-states, with f-rules for a drawn subset of the pairs: a missing pair (i,j) is a
// counterexample that is reachable only by combining an OLD macro-state at one position with a NEW one at another.
TA repeat_pair_smaller(Rng& r, TA& bigger) {
	TA a; bigger = TA(); int period = r.range(1, 2);            // q -> q1 -> q (period 2) or q -> q (period 1)
	{ Rule x; x.sym = "a"; x.parent = 0; a.rules.insert(x); }
	if (period == 2) { Rule x; x.sym = "g"; x.parent = 1; x.ch = {0}; a.rules.insert(x); Rule y; y.sym = "g"; y.parent = 0; y.ch = {1}; a.rules.insert(y); }
	else { Rule x; x.sym = "g"; x.parent = 0; x.ch = {0}; a.rules.insert(x); }
	{ Rule x; x.sym = "f"; x.parent = 5; x.ch = {0, 0}; a.rules.insert(x); } a.finals.insert(5);
	if (r.chance(1, 4)) { Rule x; x.sym = "f"; x.parent = 5; x.ch = {0, 0, 0}; x.ch.pop_back(); x.ch[1] = period == 2 ? 1 : 0; a.rules.insert(x); }
	int m = r.range(2, 5);                                      // chain X0 -g-> X1 -g-> ... -g-> X(m-1) -g-> X(back)
	{ Rule x; x.sym = "a"; x.parent = 10; bigger.rules.insert(x); }
	for (int i = 0; i + 1 < m; ++i) { Rule x; x.sym = "g"; x.parent = 10 + i + 1; x.ch = {10 + i}; bigger.rules.insert(x); }
	{ Rule x; x.sym = "g"; x.parent = 10 + long(r.below(uint64_t(m))); x.ch = {10 + m - 1}; bigger.rules.insert(x); }
	int dropped = 0;
	for (int i = 0; i < m; ++i) for (int j = 0; j < m; ++j) {
		if (r.chance(1, 5) && dropped < 2) { ++dropped; continue; }
		Rule x; x.sym = "f"; x.parent = 30; x.ch = {10 + i, 10 + j}; bigger.rules.insert(x);
	}
	bigger.finals.insert(30);
	return a;
}

// A drawn bijection on the symbol names a..h applied to both automata of a pair.  The loaders register symbols in
// the order of the (sorted) Ops line, and the BDD encodings explore symbols in the order of their codes, so the
// names decide the order in which the rules of one state are visited: another dimension of the "schedule".
void permute_syms(Rng& r, TA& A, TA& B) {
	std::vector<std::string> names = {"a", "b", "c", "d", "e", "f", "g", "h"}, img = names;
	for (size_t i = img.size(); i > 1; --i) std::swap(img[i - 1], img[r.below(i)]);
	std::map<std::string, std::string> m; for (size_t i = 0; i < names.size(); ++i) m[names[i]] = img[i];
	A = mdl::rename_syms(A, m); B = mdl::rename_syms(B, m);
}

FA gen_fa(Rng& r, const std::vector<std::string>& syms, int max_states, bool sparse) {
	FA a; int n = r.chance(1, 30) ? 0 : r.range(1, max_states);
	std::vector<long> st;
	if (sparse) { std::set<long> s; while (int(s.size()) < n) s.insert(long(r.below(1500))); st.assign(s.begin(), s.end()); }
	else for (int i = 0; i < n; ++i) st.push_back(i);
	if (n == 0) return a;
	int m = r.range(0, 2 * n + 2);
	for (int i = 0; i < m; ++i) { Edge e; e.src = r.pick(st); e.sym = r.pick(syms); e.dst = r.pick(st); a.edges.insert(e); }
	int ns = r.chance(1, 12) ? 0 : r.range(1, n > 3 ? 3 : n);
	for (int i = 0; i < ns; ++i) a.starts.insert(r.pick(st));
	uint64_t f = r.below(15);
	if (f == 0) {} else if (f == 1) a.finals.insert(st.begin(), st.end()); else for (long q : st) if (r.chance(1, 3)) a.finals.insert(q);
	if (r.chance(1, 6) && !a.starts.empty()) a.finals.insert(*a.starts.begin());      // accepts the empty word
	return a;
}

FA derive_fa(Rng& r, const std::vector<std::string>& syms, const FA& a, int kind) {
	FA b = a; std::set<long> ss = a.states(); std::vector<long> st(ss.begin(), ss.end()); if (st.empty()) st.push_back(0);
	switch (kind % 5) {
		case 0: break;
		case 1: { int k = r.range(1, 3); for (int i = 0; i < k; ++i) { Edge e; e.src = r.pick(st); e.sym = r.pick(syms); e.dst = r.pick(st); b.edges.insert(e); } if (r.chance(1, 2)) b.finals.insert(r.pick(st)); if (r.chance(1, 3)) b.starts.insert(r.pick(st)); break; }
		case 2: { if (!b.edges.empty() && r.chance(2, 3)) { auto it = b.edges.begin(); std::advance(it, long(r.below(b.edges.size()))); b.edges.erase(it); }
			else if (!b.finals.empty()) { auto it = b.finals.begin(); std::advance(it, long(r.below(b.finals.size()))); b.finals.erase(it); } break; }
		case 3: { if (!b.edges.empty()) { auto it = b.edges.begin(); std::advance(it, long(r.below(b.edges.size()))); Edge e = *it; b.edges.erase(it); if (r.chance(1, 2)) e.dst = r.pick(st); else e.sym = r.pick(syms); b.edges.insert(e); } break; }
		default: { std::vector<long> p(st); for (size_t i = p.size(); i > 1; --i) std::swap(p[i - 1], p[r.below(i)]); std::map<long, long> m; for (size_t i = 0; i < st.size(); ++i) m[st[i]] = p[i]; b = mdl::rename(a, m); break; }
	}
	return b;
}

void gen_fa_incl_pair(Rng& r, const std::vector<std::string>& sa, const std::vector<std::string>& sb, int max_states, FA& A, FA& B) {
	uint64_t x = r.below(100);
	if (x < 55) {
		// dense bigger automaton first
		int n = r.range(3, max_states); B = FA(); std::vector<long> st; for (int i = 0; i < n; ++i) st.push_back(i);
		int m = r.range(2 * n, 4 * n);
		for (int i = 0; i < m; ++i) { Edge e; e.src = r.pick(st); e.sym = r.pick(sb); e.dst = r.pick(st); B.edges.insert(e); }
		int ns = r.range(1, 3); for (int i = 0; i < ns; ++i) B.starts.insert(r.pick(st));
		for (long q : st) if (r.chance(1, 3)) B.finals.insert(q);
		if (B.finals.empty()) B.finals.insert(r.pick(st));
		// the smaller one: B itself perturbed once or twice (sub-automaton, extra edge, tweak), or a random small one over the same symbols
		A = derive_fa(r, sa, B, 1 + int(r.below(3))); if (r.chance(1, 2)) A = derive_fa(r, sa, A, 1 + int(r.below(3)));
		if (r.chance(1, 3)) { std::set<long> f; for (long q : A.finals) if (r.chance(2, 3)) f.insert(q); if (!f.empty()) A.finals = f; }
		if (r.chance(1, 3)) A = derive_fa(r, sa, A, 4);
	} else {
		int n = r.chance(1, 5) ? max_states : r.range(1, 5);
		A = gen_fa(r, sa, n, r.chance(1, 4));
		B = r.chance(1, 2) ? derive_fa(r, sb, A, int(r.below(5))) : gen_fa(r, sb, n, r.chance(1, 4));
	}
}

// A pair of word automata embedded as monadic tree automata: an edge q -s-> q' becomes the unary rule s(q)->q',
// a start state gets a leaf rule, final states stay final.  Dense nondeterministic bigger automata over four to six
// unary symbols give the downward algorithms what random ranked pools rarely do: long cycles through several
// symbols, one pair (state, macro-state) reached again below itself and once more from outside the cycle, and
// alternatives (several rules with one symbol into one state) that let a refuted sub-goal be tolerated.
void monadic_pair(Rng& r, TA& A, TA& B) {
	static const char* U[] = {"a", "b", "c", "d", "e", "f"};
	int k = r.range(2, 6); std::vector<std::string> syms(U, U + k);
	FA fa, fb; gen_fa_incl_pair(r, syms, syms, r.range(3, 6), fa, fb);
	bool two_leaves = r.chance(1, 3);
	auto conv = [&](const FA& f, long base) {
		TA t;
		for (const Edge& e : f.edges) { Rule x; x.sym = e.sym; x.parent = base + e.dst; x.ch = {base + e.src}; t.rules.insert(x); }
		for (long q : f.starts) { Rule x; x.sym = (two_leaves && (q & 1)) ? "h" : "g"; x.parent = base + q; t.rules.insert(x); }
		for (long q : f.finals) t.finals.insert(base + q);
		return t;
	};
	A = conv(fa, 0); B = conv(fb, r.chance(1, 2) ? 0 : 10);
}

vsim::Env gen_env(Rng& r, bool allow_never) {
	vsim::Env e;
	e.place = int(r.below(simheap::P_COUNT));
	e.reuse = int(r.below(allow_never ? simheap::R_COUNT : simheap::R_COUNT - 1));
	if (r.chance(1, 3)) e.reuse = simheap::R_LIFO;         // maximal ABA pressure gets extra weight
	e.noise = int(r.below(simheap::N_COUNT));
	e.layout_seed = r.next() >> 1; e.noise_seed = r.next() >> 1;
	e.stack_noise = e.noise == simheap::N_PATTERN && r.chance(2, 3);
	e.passthrough = 0;
	return e;
}

std::vector<vsim::Step> interleave(Rng& r, std::vector<std::vector<vsim::Step>>& progs, int style) {
	std::vector<vsim::Step> out; std::vector<size_t> pos(progs.size(), 0); size_t cur = 0;
	while (true) {
		std::vector<size_t> live; for (size_t i = 0; i < progs.size(); ++i) if (pos[i] < progs[i].size()) live.push_back(i);
		if (live.empty()) break;
		bool cur_live = std::find(live.begin(), live.end(), cur) != live.end();
		switch (style % 3) {
			case 0: cur = live[r.below(live.size())]; break;                                            // uniform
			case 1: if (!cur_live || r.chance(1, 5)) cur = live[r.below(live.size())]; break;           // bursty
			default: {                                                                                 // adversarial: switch right after a copy / free / mutation
				bool sw = !cur_live;
				if (!sw && pos[cur] > 0) { const std::string& op = progs[cur][pos[cur] - 1].op; if (op.find("copy") != std::string::npos || op.find("destroy") != std::string::npos || op.find("assign") != std::string::npos || op.find("give") != std::string::npos) sw = r.chance(4, 5); else sw = r.chance(1, 6); }
				if (sw) cur = live[r.below(live.size())];
				break; }
		}
		out.push_back(progs[cur][pos[cur]++]);
	}
	return out;
}

vsim::Step mk(int client, const std::string& op, std::initializer_list<long> a, const std::string& lit) {
	vsim::Step s; s.client = client; s.op = op; s.a.assign(a.begin(), a.end()); s.lit = lit; return s;
}

} // namespace gen
