// Steps over ExplicitFiniteAut (C09, C10, and the finite-automaton half of C11).
// The class has no iteration API: results are read back through DumpToString
// and the harness's own independent Timbuk reader.
#include "world.hh"
#include "profiles.hh"

#include <vata/vata.hh>
#include <vata/explicit_finite_aut.hh>
#include <vata/parsing/timbuk_parser.hh>
#include <vata/serialization/timbuk_serializer.hh>

#define startTime startTime_fa
#define _OPERATIONS_HH_FA_
#include "operations.hh"
#undef startTime

#include <memory>

using namespace vsim;
using mdl::FA; using mdl::Edge;
typedef VATA::ExplicitFiniteAut EF;
typedef VATA::AutBase::StateType StateType;

namespace {

struct FAH { std::unique_ptr<EF> aut; FA model; uint64_t origin = 0; };
struct Client { std::vector<FAH> fa; };
std::vector<Client> g_cl;
uint64_t g_origin = 0;

inline long mod(long v, size_t n) { long m = long(n); long r = v % m; return r < 0 ? r + m : r; }
Client& CL(const Step& s) { if (g_cl.size() < size_t(g_nclients)) g_cl.resize(size_t(g_nclients)); return g_cl[size_t(mod(s.client, size_t(g_nclients)))]; }
size_t HI(const Step& s, size_t i) { auto& v = CL(s).fa; if (v.empty()) throw Skip(); return size_t(mod(s.arg(i), v.size())); }
FAH& H(const Step& s, size_t i) { return CL(s).fa[HI(s, i)]; }

EF::SymbolType sym_num(const EF& a, const std::string& name) { auto tr = a.GetAlphabet()->GetSymbolTransl(); return (*tr)(name); }

// dump -> independent reader -> model (states are printed as numbers)
bool read_back(const EF& a, FA& out, std::string* why = nullptr) {
	VATA::Serialization::TimbukSerializer ser;
	std::string text = a.DumpToString(ser);
	mdl::Desc d; std::string err;
	if (!mdl::parse_timbuk_ref(text, d, &err)) { if (why) *why = "dump is not well-formed Timbuk: " + err; return false; }
	if (!mdl::desc_to_fa(d, "", out)) { if (why) *why = "dump contains a rule that is not a word-automaton rule"; return false; }
	return true;
}

bool same_fa(const FA& a, const FA& b) { return a.edges == b.edges && a.starts == b.starts && a.finals == b.finals; }
std::string fa_diff(const FA& e, const FA& g) { return "\n  expected: " + mdl::to_lit(e) + "\n  got     : " + mdl::to_lit(g); }

void check_all(const std::string& oracle, const std::string& site, const std::string& after) {
	api_end();
	for (size_t c = 0; c < g_cl.size(); ++c) for (size_t i = 0; i < g_cl[c].fa.size(); ++i) {
		FAH& h = g_cl[c].fa[i]; FA got; std::string why; count(c_reread_handles);
		if (!read_back(*h.aut, got, &why)) violation(oracle, site, why + " (client " + std::to_string(c) + " handle " + std::to_string(i) + ") after " + after);
		else if (!same_fa(got, h.model)) violation(oracle, site, "client " + std::to_string(c) + " finite-automaton handle " + std::to_string(i) + " differs from its model after " + after + fa_diff(h.model, got));
	}
}
void after_mutation(const Step& s, const std::string& what) { api_end(); if (armed("C11")) { count(c_oracle_evals); check_all("C11.handle-equals-model", s.op, what); } }

FAH& add_handle(Client& c, EF&& a, const FA& m, uint64_t origin = 0) {
	FAH h; h.aut.reset(new EF(std::move(a))); h.model = m; h.origin = origin ? origin : ++g_origin; c.fa.push_back(std::move(h)); count(c_handles_created); return c.fa.back();
}
// value of a returned automaton = what can be read from it at return time
bool add_result(const Step& s, EF&& a, const std::string& oracle_prefix, const std::string& site, FA* out = nullptr) {
	api_end();
	FA got; std::string why;
	if (!read_back(a, got, &why)) { violation(oracle_prefix + ".result-readable", site, why); return false; }
	observe(got.hash());
	if (out) *out = got;
	add_handle(CL(s), std::move(a), got);
	return true;
}

void note_fa_case(const FA& a, const FA* b, uint64_t extra) { uint64_t h = a.hash(); if (b) h = mix64(h, b->hash()); note_case(mix64(h, extra)); }

// ----------------------------------------------------------------- construction
void op_load(const Step& s) {
	FA lit = mdl::fa_from_lit(s.lit);
	VATA::Parsing::TimbukParser parser; VATA::AutBase::StateDict dict;
	std::string text = mdl::to_timbuk(lit, "q");
	EF a;
	api_begin();
	a.LoadFromString(parser, text, dict);
	api_end();
	std::map<long, long> m;
	for (long q : lit.states()) { auto it = dict.FindFwd("q" + std::to_string(q)); if (it != dict.EndFwd()) m[q] = long(it->second); else violation(g_profile + ".load-dict", "fa_load", "state missing from the dictionary after load"); }
	FA model = mdl::rename(lit, m);
	if (armed("C11") || armed("C10") || armed("C13")) {
		FA got; std::string why; count(c_oracle_evals);
		if (!read_back(a, got, &why)) violation(g_profile + ".load-equals-description", "fa_load", why);
		else if (!same_fa(got, model)) violation(g_profile + ".load-equals-description", "fa_load", "loaded automaton differs from the text" + fa_diff(model, got));
	}
	add_handle(CL(s), std::move(a), model);
	after_mutation(s, "fa_load");
}

void op_build(const Step& s) {
	FA lit = mdl::fa_from_lit(s.lit); Rng r(uint64_t(s.arg(0)) + 7);
	EF a;
	std::vector<Edge> ed(lit.edges.begin(), lit.edges.end());
	for (size_t i = ed.size(); i > 1; --i) std::swap(ed[i - 1], ed[r.below(i)]);
	api_begin();
	for (long q : lit.starts) {
		auto it = lit.start_syms.find(q);
		if (it == lit.start_syms.end() || it->second.empty()) a.SetStateStart(StateType(q), sym_num(a, "x"));
		else for (const std::string& y : it->second) a.SetStateStart(StateType(q), sym_num(a, y));
	}
	for (const Edge& e : ed) a.AddTransition(StateType(e.src), sym_num(a, e.sym), StateType(e.dst));
	for (long q : lit.finals) a.SetStateFinal(StateType(q));
	add_handle(CL(s), std::move(a), lit);
	after_mutation(s, "fa_build");
}

void op_copy(const Step& s) { FAH& h = H(s, 0); api_begin(); EF c(*h.aut); count(c_handles_shared); add_handle(CL(s), std::move(c), h.model, h.origin); after_mutation(s, "fa_copy"); }
void op_assign(const Step& s) {
	size_t i = HI(s, 0), j = HI(s, 1); Client& c = CL(s);
	api_begin(); *c.fa[i].aut = *c.fa[j].aut; c.fa[i].model = c.fa[j].model; c.fa[i].origin = c.fa[j].origin; count(c_handles_shared);
	after_mutation(s, "fa_assign");
}
// an object with a history (see et_twist): a near relative of the handle's value is built aside and copy-assigned over the same object
void op_twist(const Step& s) {
	FAH& h = H(s, 0); Rng r(uint64_t(s.arg(1)) + 43);
	std::set<std::string> ss; for (const Edge& e : h.model.edges) ss.insert(e.sym);
	std::vector<std::string> syms(ss.begin(), ss.end()); if (syms.empty()) syms.push_back("a");
	if (h.model.edges.size() > 400) throw Skip();
	FA rel = gen::derive_fa(r, syms, h.model, 1 + int(mod(s.arg(2), 3)));
	if (s.arg(2) & 4) rel = gen::derive_fa(r, syms, rel, 1 + int(r.below(3)));
	rel.start_syms.clear();
	EF fresh;
	for (long q : rel.starts) fresh.SetStateStart(StateType(q), sym_num(fresh, "x"));
	for (const Edge& e : rel.edges) fresh.AddTransition(StateType(e.src), sym_num(fresh, e.sym), StateType(e.dst));
	for (long q : rel.finals) fresh.SetStateFinal(StateType(q));
	api_begin();
	*h.aut = fresh;
	h.model = rel; h.origin = ++g_origin;
	after_mutation(s, "fa_twist");
}
void op_move_assign(const Step& s) {
	size_t i = HI(s, 0), j = HI(s, 1); Client& c = CL(s); if (i == j) throw Skip();
	api_begin(); *c.fa[i].aut = std::move(*c.fa[j].aut); c.fa[i].model = c.fa[j].model; c.fa[i].origin = c.fa[j].origin;
	c.fa.erase(c.fa.begin() + long(j)); count(c_handles_destroyed);
	after_mutation(s, "fa_move_assign");
}
void op_move_ctor(const Step& s) {
	size_t i = HI(s, 0); Client& c = CL(s);
	api_begin(); EF n(std::move(*c.fa[i].aut)); FA m = c.fa[i].model; uint64_t og = c.fa[i].origin;
	c.fa.erase(c.fa.begin() + long(i)); count(c_handles_destroyed); add_handle(c, std::move(n), m, og);
	after_mutation(s, "fa_move_ctor");
}
void op_destroy(const Step& s) { size_t i = HI(s, 0); Client& c = CL(s); api_begin(); c.fa.erase(c.fa.begin() + long(i)); count(c_handles_destroyed); after_mutation(s, "fa_destroy"); }
void op_give(const Step& s) {
	FAH& h = H(s, 0); size_t to = size_t(mod(s.arg(1), size_t(g_nclients))); if (g_cl.size() < size_t(g_nclients)) g_cl.resize(size_t(g_nclients));
	api_begin(); EF c(*h.aut); FA m = h.model; uint64_t og = h.origin; add_handle(g_cl[to], std::move(c), m, og); count(c_handles_shared);
	after_mutation(s, "fa_give");
}

bool shared(const FAH& h) { int n = 0; for (auto& c : g_cl) for (auto& o : c.fa) if (o.origin == h.origin) ++n; return n > 1; }

void op_add(const Step& s) {
	FAH& h = H(s, 0); FA lit = mdl::fa_from_lit(s.lit); if (lit.edges.empty()) throw Skip();
	if (shared(h)) count(c_cow_writes_on_shared);
	for (const Edge& e : lit.edges) { EF::SymbolType y = sym_num(*h.aut, e.sym); api_begin(); h.aut->AddTransition(StateType(e.src), y, StateType(e.dst)); h.model.edges.insert(e); }
	after_mutation(s, "fa_add");
}
void op_final(const Step& s) { FAH& h = H(s, 0); if (shared(h)) count(c_cow_writes_on_shared); api_begin(); h.aut->SetStateFinal(StateType(s.arg(1))); h.model.finals.insert(s.arg(1)); after_mutation(s, "fa_final"); }
void op_start(const Step& s) {
	FAH& h = H(s, 0); if (shared(h)) count(c_cow_writes_on_shared);
	EF::SymbolType y = sym_num(*h.aut, "x");
	long how = mod(s.arg(2), 3);
	api_begin();
	if (how == 0 || h.model.starts.count(s.arg(1))) { h.aut->SetStateStart(StateType(s.arg(1)), y); h.model.start_syms[s.arg(1)].insert("x"); }
	else {
		// the other public way to make a state initial: with a whole set of start symbols, possibly none
		EF::SymbolSet ys; if (how == 2) ys.insert(y);
		h.aut->SetExistingStateStart(StateType(s.arg(1)), ys);
		if (how == 2) h.model.start_syms[s.arg(1)].insert("x");
	}
	h.model.starts.insert(s.arg(1));
	after_mutation(s, "fa_start");
}

// ----------------------------------------------------------------- operations (C10)
void lang_oracle(const std::string& oracle, const std::string& site, const FA& got, const FA& want, const std::string& what) {
	api_end(); count(c_oracle_evals);
	int e = mdl::equiv(got, want); if (e < 0) { count(c_model_too_big); return; }
	(mdl::is_empty(want) ? count(c_lang_empty) : count(c_lang_nonempty));
	if (!e) violation(oracle, site, what + ": language differs from the reference\n  result   : " + mdl::to_lit(got) + "\n  reference: " + mdl::to_lit(want));
}
// C09 / C10 speak about languages: an operand must still denote the language it was called with (C11 judges values)
void operands_unchanged(const Step& s, FAH& a, FAH* b, const std::string& P) {
	api_end(); count(c_operand_rechecks);
	auto chk = [&](FAH& h, const char* which) {
		FA g; std::string why;
		if (!read_back(*h.aut, g, &why)) { violation(P + ".operand-unchanged", s.op, std::string(which) + " operand cannot be read after the call: " + why); return; }
		if (same_fa(g, h.model)) return;
		if (mdl::equiv(g, h.model, 20000) == 0) violation(P + ".operand-unchanged", s.op, std::string("the language of the ") + which + " operand changed by the call" + fa_diff(h.model, g));
	};
	chk(a, "left"); if (b) chk(*b, "right");
}

// Histories feed results back into operations (X = U n U, then X n X, ...): sizes grow polynomially per step and
// exponentially over a history.  Beyond these bounds the step is skipped: nothing is learnt from a 65 000-state
// product except that it is slow, and the tick budget of a step is meant to flag hangs, not big inputs.
bool too_big(const FA& a, const FA* b = nullptr) {
	size_t na = a.states().size() + a.edges.size(), nb = b ? b->states().size() + b->edges.size() : 1;
	return na > 400 || nb > 400 || na * nb > 20000;
}

void op_union(const Step& s) {
	FAH& a = H(s, 0); FAH& b = H(s, 1); FA ma = a.model, mb = b.model; VATA::AutBase::StateToStateMap m1, m2;
	if (too_big(ma, &mb)) throw Skip();
	api_begin();
	EF r = (s.arg(2) & 1) ? EF::Union(*a.aut, *b.aut, &m1, &m2) : EF::Union(*a.aut, *b.aut);
	api_end();
	if (armed("C10")) {
		FA got; std::string why; if (!read_back(r, got, &why)) { violation("C10.result-readable", "fa_union", why); return; }
		lang_oracle("C10.union-language", "fa_union", got, mdl::unite_tagged(ma, mb), "Union");
		operands_unchanged(s, a, &b, "C10"); note_fa_case(ma, &mb, 1);
	}
	add_result(s, std::move(r), g_profile, "fa_union");
	after_mutation(s, "fa_union");
}

void op_union_disj(const Step& s) {
	FAH& a = H(s, 0); FAH& b = H(s, 1); FA ma = a.model, mb = b.model;
	if (too_big(ma, &mb)) throw Skip();
	std::set<long> sa = ma.states(), sb = mb.states(); bool disjoint = true; for (long q : sb) if (sa.count(q)) disjoint = false;
	std::unique_ptr<EF> shifted;
	api_begin();
	if (!disjoint) {
		// the client makes the state sets disjoint first (contract of UnionDisjointStates)
		long off = (sa.empty() ? 0 : *sa.rbegin()) + 1; VATA::AutBase::StateToStateMap sm;
		VATA::AutBase::StateToStateTranslWeak tr(sm, [off](const StateType& q) { return q + StateType(off); });
		shifted.reset(new EF(b.aut->ReindexStates(tr)));
	}
	EF r = EF::UnionDisjointStates(*a.aut, shifted ? *shifted : *b.aut);
	api_end();
	if (armed("C10")) {
		FA got; std::string why; if (!read_back(r, got, &why)) { violation("C10.result-readable", "fa_union_disj", why); return; }
		lang_oracle("C10.union-language", "fa_union_disj", got, mdl::unite_tagged(ma, mb), "UnionDisjointStates");
		operands_unchanged(s, a, &b, "C10"); note_fa_case(ma, &mb, 2);
	}
	add_result(s, std::move(r), g_profile, "fa_union_disj");
	after_mutation(s, "fa_union_disj");
}

void op_isect(const Step& s) {
	FAH& a = H(s, 0); FAH& b = H(s, 1); FA ma = a.model, mb = b.model; VATA::AutBase::ProductTranslMap pm;
	if (too_big(ma, &mb)) throw Skip();
	api_begin();
	EF r = (s.arg(2) & 1) ? EF::Intersection(*a.aut, *b.aut, &pm) : EF::Intersection(*a.aut, *b.aut);
	api_end();
	if (armed("C10")) {
		FA got; std::string why; if (!read_back(r, got, &why)) { violation("C10.result-readable", "fa_isect", why); return; }
		lang_oracle("C10.isect-language", "fa_isect", got, mdl::isect(ma, mb), "Intersection");
		operands_unchanged(s, a, &b, "C10"); note_fa_case(ma, &mb, 3);
	}
	add_result(s, std::move(r), g_profile, "fa_isect");
	after_mutation(s, "fa_isect");
}

void op_reverse(const Step& s) {
	FAH& a = H(s, 0); FA ma = a.model;
	api_begin(); EF r = a.aut->Reverse(); api_end();
	if (armed("C10")) {
		FA got; std::string why; if (!read_back(r, got, &why)) { violation("C10.result-readable", "fa_reverse", why); return; }
		lang_oracle("C10.reverse-language", "fa_reverse", got, mdl::reverse(ma), "Reverse");
		operands_unchanged(s, a, nullptr, "C10"); note_fa_case(ma, nullptr, 4);
	}
	add_result(s, std::move(r), g_profile, "fa_reverse");
	after_mutation(s, "fa_reverse");
}

void trim_op(const Step& s, bool useless) {
	FAH& a = H(s, 0); FA ma = a.model; const std::string site = useless ? "fa_useless" : "fa_unreach";
	api_begin(); EF r = useless ? a.aut->RemoveUselessStates() : a.aut->RemoveUnreachableStates(); api_end();
	if (armed("C10")) {
		FA got; std::string why; if (!read_back(r, got, &why)) { violation("C10.result-readable", site, why); return; }
		lang_oracle("C10.trim-language", site, got, ma, useless ? "RemoveUselessStates" : "RemoveUnreachableStates");
		operands_unchanged(s, a, nullptr, "C10"); note_fa_case(ma, nullptr, useless ? 6 : 5);
	}
	add_result(s, std::move(r), g_profile, site);
	after_mutation(s, site);
}
void op_unreach(const Step& s) { trim_op(s, false); }
void op_useless(const Step& s) { trim_op(s, true); }

void op_witness(const Step& s) {
	FAH& a = H(s, 0); FA ma = a.model;
	api_begin(); EF r = a.aut->GetCandidateTree(); api_end();
	if (armed("C10")) {
		FA got; std::string why; if (!read_back(r, got, &why)) { violation("C10.result-readable", "fa_witness", why); return; }
		count(c_oracle_evals);
		int in = mdl::incl(got, ma);
		if (in == 0) violation("C10.witness-sublanguage", "fa_witness", "the witness accepts a word the automaton does not\n  automaton: " + mdl::to_lit(ma) + "\n  witness  : " + mdl::to_lit(got));
		bool e1 = mdl::is_empty(ma), e2 = mdl::is_empty(got); (e1 ? count(c_lang_empty) : count(c_lang_nonempty));
		if (!e1 && e2) violation("C10.witness-nonempty", "fa_witness", "the witness is empty although the automaton accepts a word\n  automaton: " + mdl::to_lit(ma) + "\n  witness  : " + mdl::to_lit(got));
		operands_unchanged(s, a, nullptr, "C10"); note_fa_case(ma, nullptr, 7);
	}
	add_result(s, std::move(r), g_profile, "fa_witness");
	after_mutation(s, "fa_witness");
}

// ----------------------------------------------------------------- inclusion (C09)
const char* const ALG[] = {"antichains", "congr-depth", "congr-breadth"};

int run_incl(const EF& a, const EF& b, long alg, long via) {
	VATA::InclParam ip; Options o; o["sim"] = "no";
	if (alg == 0) { ip.SetAlgorithm(VATA::InclParam::e_algorithm::antichains); o["alg"] = "antichains"; }
	else { ip.SetAlgorithm(VATA::InclParam::e_algorithm::congruences); o["alg"] = "congr"; ip.SetSearchOrder(alg == 1 ? VATA::InclParam::e_search_order::depth : VATA::InclParam::e_search_order::breadth); o["order"] = alg == 1 ? "depth" : "breadth"; }
	try {
		if (via == 2) return EF::CheckInclusion(a, b) ? 1 : 0;                  // default parameters
		if (via == 0) return EF::CheckInclusion(a, b, ip) ? 1 : 0;
		Arguments args; args.options = o; return ::CheckInclusion<EF>(a, b, args) ? 1 : 0;
	} catch (const VATA::NotImplementedException&) { count(c_notimpl_thrown); return 2; }
}

void op_incl(const Step& s) {
	FAH& a = H(s, 0); FAH& b = H(s, 1); long alg = mod(s.arg(2), 3), via = s.arg(3) & 1;
	if (too_big(a.model, &b.model) || a.model.states().size() > 30 || b.model.states().size() > 30) throw Skip();
	if (s.arg(3) == 2) { via = 2; alg = 0; }
	const std::string site = std::string("fa_incl:") + ALG[alg] + (via == 2 ? ":default-overload" : via ? ":cli" : ":api");
	api_begin(); api_site(site, BUDGET_HANG, 20000000);
	int v = run_incl(*a.aut, *b.aut, alg, via);
	api_end(); observe(uint64_t(v));
	if (armed("C09")) {
		count(c_oracle_evals);
		if (v == 2) { violation("C09.implemented-selection", site, "an implemented algorithm selection threw NotImplementedException"); return; }
		int want = mdl::incl(a.model, b.model);
		if (want < 0) count(c_model_too_big);
		else {
			(want ? count(c_verdict_true) : count(c_verdict_false));
			if (v != want) violation("C09.verdict", site, std::string("CheckInclusion returned ") + (v ? "true" : "false") + " but the reference says " + (want ? "included" : "not included") + "\n  smaller: " + mdl::to_lit(a.model) + "\n  bigger : " + mdl::to_lit(b.model));
			note_fa_case(a.model, &b.model, 20 + uint64_t(alg) * 2 + uint64_t(via));
		}
		operands_unchanged(s, a, &b, "C09");
	}
}

// The selections that take a simulation relation.  The library cannot compute one for word automata
// (ExplicitFiniteAut::ComputeSimulation is not implemented), so the client follows the protocol of
// cli/operations.hh by hand: sanitise both operands (dense, disjoint numbers), obtain a simulation
// preorder on the union -- here from the reference model -- and hand it over through InclParam.
void op_incl_sim(const Step& s) {
	FAH& a = H(s, 0); FAH& b = H(s, 1); bool congr = s.arg(2) & 1; long variant = mod(s.arg(3), 4);
	if (too_big(a.model, &b.model) || a.model.states().size() > 30 || b.model.states().size() > 30) throw Skip();
	static const char* const VAR[] = {"greatest", "identity", "within-operands", "smaller-to-bigger"};
	const std::string site = std::string("fa_incl:") + (congr ? "congr-depth" : "antichains") + "-sim:" + VAR[variant];
	EF sa(*a.aut), sb(*b.aut);
	api_begin(); api_site(site + ":sanitise");
	StateType n = VATA::AutBase::SanitizeAutsForInclusion(sa, sb);
	api_end();
	FA ma, mb; std::string why;
	// the protocol below is the tool's, not part of C09's statement: where its conventions do not hold (numbers that are not dense and
	// disjoint below n) the step is not applicable -- nothing is charged to the library for that
	if (!read_back(sa, ma, &why) || !read_back(sb, mb, &why)) throw Skip();
	for (long q : ma.states()) if (q < 0 || q >= long(n) || mb.states().count(q)) throw Skip();
	for (long q : mb.states()) if (q < 0 || q >= long(n)) throw Skip();
	if (mdl::equiv(ma, a.model) == 0 || mdl::equiv(mb, b.model) == 0) throw Skip();      // (a sanitiser that changed a language is C01's / C03's business)
	FA u = ma; u.edges.insert(mb.edges.begin(), mb.edges.end()); u.finals.insert(mb.finals.begin(), mb.finals.end());
	std::set<long> dom; for (long q = 0; q < long(n); ++q) dom.insert(q);
	mdl::Rel rel = mdl::fwd_sim(u, dom);
	std::set<long> sta = ma.states();
	VATA::AutBase::StateDiscontBinaryRelation sim(size_t(n), false);
	for (long q = 0; q < long(n); ++q) sim.set(size_t(q), size_t(q), true);
	for (auto& pq : rel) {
		bool pa = sta.count(pq.first) > 0, qa = sta.count(pq.second) > 0, keep = true;
		if (variant == 1) keep = pq.first == pq.second;
		else if (variant == 2) keep = pa == qa;                             // a simulation: successors stay inside their operand
		else if (variant == 3) keep = pq.first == pq.second || (pa && !qa);
		if (keep) sim.set(size_t(pq.first), size_t(pq.second), true);
	}
	VATA::InclParam ip; ip.SetUseSimulation(true); ip.SetSimulation(&sim);
	if (congr) { ip.SetAlgorithm(VATA::InclParam::e_algorithm::congruences); ip.SetSearchOrder(VATA::InclParam::e_search_order::depth); }
	else ip.SetAlgorithm(VATA::InclParam::e_algorithm::antichains);
	int v;
	api_begin(); api_site(site, BUDGET_HANG, 20000000);
	try {
		if (congr) {
			EF un = EF::UnionDisjointStates(sa, sb);
			{ FA mu; std::string w2; if (!read_back(un, mu, &w2) || !(mu.edges == u.edges && mu.finals == u.finals)) { api_end(); throw Skip(); } }      // the relation is indexed by the operands' numbers: a union that renumbers does not fit the protocol
			v = EF::CheckInclusion(un, sb, ip) ? 1 : 0;
		}
		else v = EF::CheckInclusion(sa, sb, ip) ? 1 : 0;
	} catch (const std::exception&) { count(c_notimpl_thrown); v = 2; }      // the selections with a relation are not among those C09 names: a library may refuse them
	api_end(); observe(uint64_t(v));
	if (armed("C09")) {
		count(c_oracle_evals);
		if (v == 2) return;
		int want = mdl::incl(a.model, b.model);
		if (want < 0) count(c_model_too_big);
		else {
			(want ? count(c_verdict_true) : count(c_verdict_false));
			if (v != want) violation("C09.verdict", site, std::string("CheckInclusion returned ") + (v ? "true" : "false") + " but the reference says " + (want ? "included" : "not included") + "\n  smaller: " + mdl::to_lit(a.model) + "\n  bigger : " + mdl::to_lit(b.model) + "\n  sanitised smaller: " + mdl::to_lit(ma) + "\n  sanitised bigger : " + mdl::to_lit(mb));
			note_fa_case(a.model, &b.model, 40 + uint64_t(congr) * 4 + uint64_t(variant));
		}
		operands_unchanged(s, a, &b, "C09");
	}
}

void op_incl_all(const Step& s) {
	FAH& a = H(s, 0); FAH& b = H(s, 1); Rng r(uint64_t(s.arg(2)) + 3);
	if (too_big(a.model, &b.model) || a.model.states().size() > 30 || b.model.states().size() > 30) throw Skip();
	std::vector<long> order = {0, 1, 2}; for (size_t i = 3; i > 1; --i) std::swap(order[i - 1], order[r.below(i)]);
	int want = mdl::incl(a.model, b.model), first = -1; long firstalg = 0;
	api_begin();
	for (long alg : order) {
		long via = long(r.below(2)); const std::string site = std::string("fa_incl:") + ALG[alg] + (via ? ":cli" : ":api");
		api_begin(); api_site(site, BUDGET_HANG, 20000000);
		int v = run_incl(*a.aut, *b.aut, alg, via);
		api_end(); observe(uint64_t(v)); if (!armed("C09")) continue; count(c_oracle_evals);
		if (v == 2) { violation("C09.implemented-selection", site, "an implemented algorithm selection threw NotImplementedException"); continue; }
		if (want >= 0) {
			(want ? count(c_verdict_true) : count(c_verdict_false));
			if (v != want) { violation("C09.verdict", site, std::string("CheckInclusion returned ") + (v ? "true" : "false") + " but the reference says " + (want ? "included" : "not included") + "\n  smaller: " + mdl::to_lit(a.model) + "\n  bigger : " + mdl::to_lit(b.model)); continue; }
		} else count(c_model_too_big);
		if (first < 0) { first = v; firstalg = alg; }
		else if (v != first) violation("C09.algorithms-agree", site, std::string("algorithms disagree: ") + ALG[firstalg] + " says " + std::to_string(first) + ", " + ALG[alg] + " says " + std::to_string(v));
	}
	if (want >= 0 && armed("C09")) note_fa_case(a.model, &b.model, 19);
	if (armed("C09")) operands_unchanged(s, a, &b, "C09");
}

void op_dump(const Step& s) {
	FAH& a = H(s, 0); VATA::Serialization::TimbukSerializer ser;
	api_begin(); std::string text = a.aut->DumpToString(ser); api_end(); observe(text);
	Blob b; b.bytes = text; b.kind = "fa"; b.model_lit = mdl::to_lit(a.model); b.owner = s.client;
	// the start states as the automaton itself reports them (the only view of a word automaton that does not go through its dump)
	api_begin(); api_site("fa_dump:GetStartStates");
	for (const StateType& q : a.aut->GetStartStates()) b.api_starts.insert(std::to_string(q));
	api_end(); b.has_starts = true;
	if (armed("C13")) {
		count(c_oracle_evals); mdl::Desc d; std::string err; FA shown;
		if (!mdl::parse_timbuk_ref(text, d, &err)) violation("C13.dump-well-formed", "fa_dump", err);
		else if (mdl::desc_to_fa(d, "", shown)) {
			std::set<std::string> ds; for (long q : shown.starts) ds.insert(std::to_string(q));
			if (ds != b.api_starts) { std::string x, y; for (auto& q : b.api_starts) x += " " + q; for (auto& q : ds) y += " " + q; violation("C13.dump-shows-start-states", "fa_dump", "the start states of the automaton are {" + x + " } but its dump has start rules for {" + y + " }\n  dump: " + text); }
		}
	}
	blobs().push_back(b);
}

void abort_client(int c, uint64_t seed) {
	if (size_t(c) >= g_cl.size()) return; Rng r(seed + 43); auto& v = g_cl[size_t(c)].fa;
	while (!v.empty()) { size_t i = size_t(r.below(v.size())); v.erase(v.begin() + long(i)); count(c_handles_destroyed); }
	if (armed("C11")) check_all("C11.handle-equals-model", "abort", "abort of client " + std::to_string(c));
}
void check_all_languages(const std::string& oracle, const std::string& site, const std::string& after) {
	api_end();
	for (size_t c = 0; c < g_cl.size(); ++c) for (size_t i = 0; i < g_cl[c].fa.size(); ++i) {
		FAH& h = g_cl[c].fa[i]; FA got; std::string why; count(c_reread_handles);
		if (!read_back(*h.aut, got, &why)) { violation(oracle, site, why + " after " + after); continue; }
		if (same_fa(got, h.model)) continue;
		if (mdl::equiv(got, h.model, 20000) == 0) violation(oracle, site, "client " + std::to_string(c) + " finite-automaton handle " + std::to_string(i) + " no longer denotes its language after " + after + fa_diff(h.model, got));
	}
}
void final_check() {
	if (armed("C11")) check_all(g_profile + ".handle-equals-model", "<final>", "the end of the run");
	else if (armed("C10") || armed("C09")) check_all_languages(g_profile + ".handle-keeps-language", "<final>", "the end of the run");
	for (auto& c : g_cl) c.fa.clear();
}

// ----------------------------------------------------------------- plan generators
std::string edge_lit(Rng& r, const std::vector<std::string>& syms) { FA t; Edge e; e.src = long(r.below(8)); e.sym = r.pick(syms); e.dst = long(r.below(8)); t.edges.insert(e); return mdl::to_lit(t); }

struct FG {
	Rng& r; int c; std::vector<Step> out; int n = 0;
	FG(Rng& rr, int cc) : r(rr), c(cc) {}
	int load(const FA& a) { out.push_back(r.chance(1, 2) ? gen::mk(c, "fa_load", {}, mdl::to_lit(a)) : gen::mk(c, "fa_build", {long(r.below(100000))}, mdl::to_lit(a))); return n++; }
	int any() { return n ? int(r.below(uint64_t(n))) : 0; }
	void value_ops(int k) {
		for (int i = 0; i < k && n; ++i) {
			int h = any();
			switch (r.below(7)) {
				case 0: case 1: out.push_back(gen::mk(c, "fa_copy", {h})); ++n; break;
				case 2: out.push_back(gen::mk(c, "fa_assign", {h, any()})); break;
				case 3: if (n > 2) { int g = any(); if (g != h) { out.push_back(gen::mk(c, "fa_move_assign", {h, g})); --n; } } break;
				case 4: out.push_back(gen::mk(c, "fa_move_ctor", {h})); break;
				case 5: if (n > 2) { out.push_back(gen::mk(c, "fa_destroy", {h})); --n; } break;
				default: out.push_back(gen::mk(c, "fa_assign", {h, h})); break;
			}
		}
	}
	void mutate_ops(int k, const std::vector<std::string>& syms) {
		for (int i = 0; i < k && n; ++i) {
			int h = any();
			switch (r.below(5)) {
				case 0: case 1: case 2: out.push_back(gen::mk(c, "fa_add", {h}, edge_lit(r, syms))); break;
				case 3: out.push_back(gen::mk(c, "fa_final", {h, long(r.below(8))})); break;
				default: out.push_back(gen::mk(c, "fa_start", {h, long(r.below(8)), long(r.below(3))})); break;
			}
		}
	}
};

std::vector<Step> foreign_fa(Rng& r, int c, const std::vector<std::string>& syms, int len) {
	FG g(r, c);
	for (int i = 0; i < len; ++i) {
		switch (r.below(5)) {
			case 0: case 1: { std::vector<std::string> mine = syms; if (r.chance(1, 2)) mine.push_back("z" + std::to_string(r.below(4))); g.load(gen::gen_fa(r, mine, 4, r.chance(1, 3))); break; }   // unrelated loads register other symbols first
			case 2: g.value_ops(1); break;
			case 3: g.out.push_back(gen::mk(c, "churn", {long(r.below(100000)), long(r.range(4, 40))})); break;
			default: g.mutate_ops(1, syms); break;
		}
	}
	return g.out;
}

void finish(Plan& p, Rng& r, std::vector<std::vector<Step>>& progs, int abort_pct) {
	p.clients = int(progs.size()); p.steps = gen::interleave(r, progs, int(r.below(3)));
	if (abort_pct > 0 && p.clients > 1 && int(r.below(100)) < abort_pct && p.steps.size() > 4) {
		int victim = int(r.below(uint64_t(p.clients))); size_t at = size_t(r.range(2, int(p.steps.size()) - 1));
		p.steps.insert(p.steps.begin() + long(at), gen::mk(victim, "abort", {victim, long(r.below(100000))}));
	}
}

std::vector<std::string> fa_syms(Rng& r) { std::vector<std::string> s = {"a", "b"}; if (r.chance(1, 2)) s.push_back("c"); if (r.chance(1, 4)) s.push_back("d"); return s; }

} // namespace

namespace vsim {

Plan plan_C09(Rng& r, const std::string& tier) {
	Plan p; p.env = gen::gen_env(r); std::vector<std::string> syms = fa_syms(r);
	int ncl = r.range(1, 3); std::vector<std::vector<Step>> progs; int maxst = tier == "thorough" ? 8 : 7;
	for (int c = 0; c < ncl; ++c) {
		if (c > 0 && r.chance(2, 3)) { progs.push_back(foreign_fa(r, c, syms, r.range(2, 10))); continue; }
		FG g(r, c); int ep = r.range(1, 3);
		for (int e = 0; e < ep; ++e) {
			std::vector<std::string> sa = syms, sb = syms;
			if (r.chance(1, 4)) sa.push_back("e"); if (r.chance(1, 4)) sb.push_back("f");          // symbols present in one operand only
			FA A, B; gen::gen_fa_incl_pair(r, sa, sb, maxst, A, B);
			int a = g.load(A), b = g.load(B);
			if (r.chance(1, 5)) g.out.push_back(cli_step(r, c, 3, 3, mdl::to_lit(A), mdl::to_lit(B)));      // vata -r expl_fa incl
			if (r.chance(1, 4)) { g.out.push_back(gen::mk(c, "fa_copy", {a})); ++g.n; }
			int k = r.range(1, 3);
			for (int i = 0; i < k; ++i) {
				if (r.chance(1, 2)) g.out.push_back(gen::mk(c, "fa_incl_all", {a, b, long(r.below(100000))}));
				else g.out.push_back(gen::mk(c, "fa_incl", {a, b, long(r.below(3)), long(r.chance(1, 10) ? 2 : r.below(2))}));
				if (r.chance(1, 6)) g.out.push_back(gen::mk(c, "fa_incl", {b, a, long(r.below(3)), long(r.below(2))}));
				if (r.chance(1, 3)) g.out.push_back(gen::mk(c, "fa_incl_sim", {a, b, long(r.below(2)), long(r.chance(1, 2) ? 0 : r.below(4))}));      // with a client-supplied simulation preorder
			}
			if (r.chance(1, 5)) {
				// the two operands SHARE their transition storage and differ in their final / start states only: a copy whose final or start set is changed
				int a2 = g.n; g.out.push_back(gen::mk(c, "fa_copy", {r.chance(2, 3) ? a : b})); ++g.n; int orig = g.out.back().arg(0) == a ? a : b;
				std::set<long> st = (orig == a ? A : B).states(); std::vector<long> sv(st.begin(), st.end()); if (sv.empty()) sv.push_back(0);
				int kf = r.range(1, 2);
				for (int i = 0; i < kf; ++i) { if (r.chance(2, 3)) g.out.push_back(gen::mk(c, "fa_final", {a2, r.pick(sv)})); else g.out.push_back(gen::mk(c, "fa_start", {a2, r.pick(sv), long(r.below(3))})); }
				g.out.push_back(gen::mk(c, "fa_incl", {a2, orig, long(r.below(3)), long(r.below(2))}));
				g.out.push_back(gen::mk(c, "fa_incl", {orig, a2, long(r.below(3)), long(r.below(2))}));
				if (r.chance(1, 2)) g.out.push_back(gen::mk(c, "fa_incl_all", {a2, orig, long(r.below(100000))}));
			}
			if (r.chance(1, 4)) {
				// an operand that is the RESULT of an earlier operation (mirror image, union, trimming), not a freshly loaded automaton
				int src = r.chance(1, 2) ? a : b, x = g.n;
				switch (r.below(5)) {
					case 0: case 1: g.out.push_back(gen::mk(c, "fa_reverse", {src})); break;
					case 2: g.out.push_back(gen::mk(c, "fa_union", {a, b, long(r.below(2))})); break;
					case 3: g.out.push_back(gen::mk(c, "fa_unreach", {src})); break;
					default: g.out.push_back(gen::mk(c, "fa_useless", {src})); break;
				}
				++g.n;
				int y = x; if (r.chance(1, 3)) { g.out.push_back(gen::mk(c, "fa_reverse", {r.chance(1, 2) ? x : (src == a ? b : a)})); y = g.n; ++g.n; }
				g.out.push_back(gen::mk(c, "fa_incl_all", {x, r.chance(1, 2) ? b : y, long(r.below(100000))}));
				g.out.push_back(gen::mk(c, "fa_incl", {r.chance(1, 2) ? a : y, x, long(r.below(3)), long(r.below(2))}));
				if (r.chance(1, 3)) g.out.push_back(gen::mk(c, "fa_incl_sim", {x, y == x ? b : y, long(r.below(2)), long(r.below(4))}));
			}
			if (r.chance(1, 5)) {
				// one operand OBJECT gets another value (a near relative is copy-assigned over it) and the question is asked again
				g.out.push_back(gen::mk(c, "fa_twist", {r.chance(1, 2) ? a : b, long(r.below(100000)), long(r.below(8))}));
				if (r.chance(1, 2)) g.out.push_back(gen::mk(c, "fa_incl_all", {a, b, long(r.below(100000))}));
				else g.out.push_back(gen::mk(c, "fa_incl", {a, b, long(r.below(3)), long(r.below(2))}));
			}
		}
		progs.push_back(g.out);
	}
	finish(p, r, progs, 10);
	return p;
}

Plan plan_C10(Rng& r, const std::string&) {
	Plan p; p.env = gen::gen_env(r); std::vector<std::string> syms = fa_syms(r);
	int ncl = r.range(1, 3); std::vector<std::vector<Step>> progs;
	for (int c = 0; c < ncl; ++c) {
		if (c > 0 && r.chance(2, 3)) { progs.push_back(foreign_fa(r, c, syms, r.range(2, 10))); continue; }
		FG g(r, c); int ep = r.range(1, 3);
		for (int e = 0; e < ep; ++e) {
			int n = r.range(1, 5);
			FA A = gen::gen_fa(r, syms, n, r.chance(1, 4));
			FA B = r.chance(1, 3) ? gen::derive_fa(r, syms, A, int(r.below(5))) : gen::gen_fa(r, syms, n, r.chance(1, 4));
			int a = g.load(A), b = g.load(B);
			if (r.chance(1, 4)) g.value_ops(1);
			if (r.chance(1, 4)) { long cm[] = {0, 1, 2, 4}; g.out.push_back(cli_step(r, c, 3, cm[r.below(4)], mdl::to_lit(A), mdl::to_lit(B))); }      // vata -r expl_fa load|union|isect|witness [-p|-s]
			int k = r.range(1, 4);
			for (int i = 0; i < k; ++i) {
				switch (r.below(8)) {
					case 0: g.out.push_back(gen::mk(c, "fa_union", {a, b, long(r.below(2))})); ++g.n; break;
					case 1: g.out.push_back(gen::mk(c, "fa_union_disj", {a, b})); ++g.n; break;
					case 2: case 3: g.out.push_back(gen::mk(c, "fa_isect", {a, b, long(r.below(2))})); ++g.n; break;
					case 4: g.out.push_back(gen::mk(c, "fa_reverse", {a})); ++g.n; break;
					case 5: g.out.push_back(gen::mk(c, "fa_unreach", {a})); ++g.n; break;
					case 6: g.out.push_back(gen::mk(c, "fa_useless", {a})); ++g.n; break;
					default: g.out.push_back(gen::mk(c, "fa_witness", {a})); ++g.n; break;
				}
			}
			if (r.chance(1, 4)) {
				// "siblings": two copies of one automaton that still share its transition storage and got different final / start states
				int x = g.n; g.out.push_back(gen::mk(c, "fa_copy", {a})); ++g.n; int y = g.n; g.out.push_back(gen::mk(c, "fa_copy", {a})); ++g.n;
				std::set<long> st = A.states(); std::vector<long> sv(st.begin(), st.end()); if (sv.empty()) sv.push_back(0);
				g.out.push_back(gen::mk(c, r.chance(3, 4) ? "fa_final" : "fa_start", {x, r.pick(sv), 0}));
				g.out.push_back(gen::mk(c, r.chance(3, 4) ? "fa_final" : "fa_start", {y, r.pick(sv), 0}));
				int kk = r.range(1, 3);
				for (int i = 0; i < kk; ++i) {
					bool sw = r.chance(1, 2);
					switch (r.below(4)) {
						case 0: g.out.push_back(gen::mk(c, "fa_union", {sw ? y : x, sw ? x : y, long(r.below(2))})); break;
						case 1: g.out.push_back(gen::mk(c, "fa_isect", {sw ? y : x, sw ? x : y, 1})); break;
						default: g.out.push_back(gen::mk(c, "fa_isect", {sw ? y : x, sw ? x : y, 0})); break;
					}
					++g.n;
				}
			}
			if (r.chance(1, 3)) {
				// chains: the result of one operation is an operand of the next (mirror images first: Reverse leaves the start bookkeeping in an unusual state)
				int x = g.n; g.out.push_back(gen::mk(c, r.chance(2, 3) ? "fa_reverse" : (r.chance(1, 2) ? "fa_unreach" : "fa_useless"), {r.chance(1, 2) ? a : b})); ++g.n;
				int kk = r.range(1, 3);
				for (int i = 0; i < kk; ++i) {
					int other = r.chance(1, 2) ? a : b; bool left = r.chance(1, 2);
					switch (r.below(7)) {
						case 0: g.out.push_back(gen::mk(c, "fa_union", {left ? x : other, left ? other : x, long(r.below(2))})); break;
						case 1: g.out.push_back(gen::mk(c, "fa_union_disj", {left ? x : other, left ? other : x})); break;
						case 2: g.out.push_back(gen::mk(c, "fa_isect", {left ? x : other, left ? other : x, long(r.below(2))})); break;
						case 3: g.out.push_back(gen::mk(c, "fa_reverse", {x})); break;
						case 4: g.out.push_back(gen::mk(c, "fa_unreach", {x})); break;
						case 5: g.out.push_back(gen::mk(c, "fa_useless", {x})); break;
						default: g.out.push_back(gen::mk(c, "fa_witness", {x})); break;
					}
					x = g.n; ++g.n;
				}
			}
			if (r.chance(1, 5)) {
				// an operand OBJECT gets another value and an operation is asked of it again
				g.out.push_back(gen::mk(c, "fa_twist", {a, long(r.below(100000)), long(r.below(8))}));
				switch (r.below(6)) {
					case 0: g.out.push_back(gen::mk(c, "fa_union", {a, b, long(r.below(2))})); ++g.n; break;
					case 1: g.out.push_back(gen::mk(c, "fa_isect", {a, b, long(r.below(2))})); ++g.n; break;
					case 2: g.out.push_back(gen::mk(c, "fa_reverse", {a})); ++g.n; break;
					case 3: g.out.push_back(gen::mk(c, "fa_unreach", {a})); ++g.n; break;
					case 4: g.out.push_back(gen::mk(c, "fa_useless", {a})); ++g.n; break;
					default: g.out.push_back(gen::mk(c, "fa_witness", {a})); ++g.n; break;
				}
			}
			if (r.chance(1, 3)) g.mutate_ops(r.range(1, 2), syms);
		}
		progs.push_back(g.out);
	}
	finish(p, r, progs, 10);
	return p;
}

// finite-automaton histories for C11
std::vector<Step> fa_history_program(Rng& r, int c, int ncl, int len) {
	std::vector<std::string> syms = {"a", "b", "c"}; FG g(r, c);
	g.load(gen::gen_fa(r, syms, 4));
	for (int i = 0; i < len; ++i) {
		uint64_t x = r.below(100);
		if (x < 12) g.load(gen::gen_fa(r, syms, 4, r.chance(1, 3)));
		else if (x < 40) g.value_ops(1);
		else if (x < 65) g.mutate_ops(1, syms);
		else if (x < 70 && ncl > 1) g.out.push_back(gen::mk(c, "fa_give", {g.any(), long(r.below(uint64_t(ncl)))}));
		else if (x < 95 && g.n) {
			int a = g.any(), b = g.any();
			switch (r.below(7)) {
				case 0: g.out.push_back(gen::mk(c, "fa_union", {a, b, long(r.below(2))})); ++g.n; break;
				case 1: g.out.push_back(gen::mk(c, "fa_union_disj", {a, b})); ++g.n; break;
				case 2: g.out.push_back(gen::mk(c, "fa_isect", {a, b, 0})); ++g.n; break;
				case 3: g.out.push_back(gen::mk(c, "fa_unreach", {a})); ++g.n; break;
				case 4: g.out.push_back(gen::mk(c, "fa_useless", {a})); ++g.n; break;
				case 5: g.out.push_back(gen::mk(c, "fa_reverse", {a})); ++g.n; break;
				default: g.out.push_back(gen::mk(c, "fa_incl", {a, b, long(r.below(3)), long(r.below(2))})); break;
			}
		}
		else g.out.push_back(gen::mk(c, "churn", {long(r.below(100000)), long(r.range(4, 30))}));
	}
	return g.out;
}

void register_fa_ops() {
	register_op("fa_load", op_load); register_op("fa_build", op_build); register_op("fa_copy", op_copy); register_op("fa_assign", op_assign); register_op("fa_twist", op_twist);
	register_op("fa_move_assign", op_move_assign); register_op("fa_move_ctor", op_move_ctor); register_op("fa_destroy", op_destroy); register_op("fa_give", op_give);
	register_op("fa_add", op_add); register_op("fa_final", op_final); register_op("fa_start", op_start);
	register_op("fa_union", op_union); register_op("fa_union_disj", op_union_disj); register_op("fa_isect", op_isect); register_op("fa_reverse", op_reverse);
	register_op("fa_unreach", op_unreach); register_op("fa_useless", op_useless); register_op("fa_witness", op_witness);
	register_op("fa_incl", op_incl); register_op("fa_incl_all", op_incl_all); register_op("fa_incl_sim", op_incl_sim); register_op("fa_dump", op_dump);
	register_abort_hook(abort_client); register_final_hook(final_check);
	register_integrity_hook([](const std::string& oracle, const std::string& site) { check_all(oracle, site, "an unrelated call"); });
}

} // namespace vsim
