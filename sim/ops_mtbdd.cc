// Steps over OndriksMTBDD (C17, C18).  Model: total truth tables over U = 8
// variables.  Unique-table sizes are read through an existing seam: the class
// befriends every specialisation of Apply1Functor, and the harness defines the
// explicit specialisation Apply1Functor<verif::Tag, void, void>.
#include "world.hh"
#include "profiles.hh"

#include <vata/vata.hh>
#include <vata/sym_var_asgn.hh>
#include <vata/util/ord_vector.hh>

#include "src/mtbdd/ondriks_mtbdd.hh"
#include "src/mtbdd/apply1func.hh"
#include "src/mtbdd/apply2func.hh"
#include "src/mtbdd/apply3func.hh"

#include <memory>

namespace verif { struct Tag {}; }
namespace VATA { namespace MTBDDPkg {
template <> class Apply1Functor<verif::Tag, void, void> {
public:
	template <class T> static size_t leaves() { return OndriksMTBDD<T>::leafCache_.size(); }
	template <class T> static size_t internals() { return OndriksMTBDD<T>::internalCache_.size(); }
};
}}

using namespace vsim;
using mdl::Fn;
using VATA::SymbolicVarAsgn;
using VATA::MTBDDPkg::OndriksMTBDD;
typedef VATA::Util::OrdVector<size_t> OV;
typedef VATA::MTBDDPkg::Apply1Functor<verif::Tag, void, void> Seam;

namespace {

const int U = 8;                 // variables the model evaluates over
const size_t NT = size_t(1) << U;

template <class T> struct Leaf;
template <> struct Leaf<int> { static int to(long v) { return int(v); } static long from(const int& x) { return x; } };
template <> struct Leaf<OV> {
	static OV to(long v) { OV s; for (size_t i = 0; i < 16; ++i) if ((v >> i) & 1) s.insert(i); return s; }
	static long from(const OV& s) { long v = 0; for (size_t i : s) v |= 1l << i; return v; }
};

long leaf_fn(long f, long a, long b = 0, long c = 0) {
	switch (f % 8) {
		case 0: return (a + b + c) % 7;
		case 1: return std::max(a, std::max(b, c));
		case 2: return (a * 3 + b + 2 * c) % 5;        // not commutative
		case 3: return 4;                             // constant
		case 4: return a;                             // projection on the first operand
		case 5: return (a + 7 - b % 7) % 7;
		case 6: return std::min(a, b);
		default: return (a == b) ? 1 : 0;
	}
}

template <class T> struct F1 : public VATA::MTBDDPkg::Apply1Functor<F1<T>, T, T> { long f; explicit F1(long ff) : f(ff) {} T ApplyOperation(const T& a) { return Leaf<T>::to(leaf_fn(f, Leaf<T>::from(a))); } };
template <class T> struct F2 : public VATA::MTBDDPkg::Apply2Functor<F2<T>, T, T, T> { long f; explicit F2(long ff) : f(ff) {} T ApplyOperation(const T& a, const T& b) { return Leaf<T>::to(leaf_fn(f, Leaf<T>::from(a), Leaf<T>::from(b))); } };
template <class T> struct F3 : public VATA::MTBDDPkg::Apply3Functor<F3<T>, T, T, T, T> { long f; explicit F3(long ff) : f(ff) {} T ApplyOperation(const T& a, const T& b, const T& c) { return Leaf<T>::to(leaf_fn(f, Leaf<T>::from(a), Leaf<T>::from(b), Leaf<T>::from(c))); } };

// Functor objects are long-lived and reused (as client code and the library's own users do): one per leaf
// function and leaf type.  Their memo tables are keyed by node addresses, so reuse across calls is exactly
// where a missing cache reset meets address reuse.
template <class T> std::map<long, std::unique_ptr<F1<T>>>& f1_pool() { static std::map<long, std::unique_ptr<F1<T>>> m; return m; }
template <class T> std::map<long, std::unique_ptr<F2<T>>>& f2_pool() { static std::map<long, std::unique_ptr<F2<T>>> m; return m; }
template <class T> std::map<long, std::unique_ptr<F3<T>>>& f3_pool() { static std::map<long, std::unique_ptr<F3<T>>> m; return m; }
template <class T> F1<T>& fn1(long f) { auto& p = f1_pool<T>()[f % 8]; if (!p) p.reset(new F1<T>(f % 8)); return *p; }
template <class T> F2<T>& fn2(long f) { auto& p = f2_pool<T>()[f % 8]; if (!p) p.reset(new F2<T>(f % 8)); return *p; }
template <class T> F3<T>& fn3(long f) { auto& p = f3_pool<T>()[f % 8]; if (!p) p.reset(new F3<T>(f % 8)); return *p; }

struct MH {
	int type = 0;                                   // 0: int leaves, 1: ordered-set leaves
	std::unique_ptr<OndriksMTBDD<int>> a; std::unique_ptr<OndriksMTBDD<OV>> b;
	Fn model; long dflt = 0;
};
struct Client { std::vector<MH> h; };
std::vector<Client> g_cl;
bool g_only_listed_ops = true;       // construct / copy / assign / apply / destroy only: the store must return to its baseline
size_t g_base_leaves[2] = {0, 0}, g_base_internals[2] = {0, 0}; bool g_base_taken = false;

inline long mod(long v, size_t n) { long m = long(n); long r = v % m; return r < 0 ? r + m : r; }
Client& CL(const Step& s) { if (g_cl.size() < size_t(g_nclients)) g_cl.resize(size_t(g_nclients)); return g_cl[size_t(mod(s.client, size_t(g_nclients)))]; }
size_t HI(const Step& s, size_t argi, int type) {
	auto& v = CL(s).h; std::vector<size_t> idx; for (size_t i = 0; i < v.size(); ++i) if (v[i].type == type) idx.push_back(i);
	if (idx.empty()) throw Skip(); return idx[size_t(mod(s.arg(argi), idx.size()))];
}
size_t leaves(int t) { return t == 0 ? Seam::leaves<int>() : Seam::leaves<OV>(); }
size_t internals(int t) { return t == 0 ? Seam::internals<int>() : Seam::internals<OV>(); }
void take_base() { if (g_base_taken) return; g_base_taken = true; for (int t = 0; t < 2; ++t) { g_base_leaves[t] = leaves(t); g_base_internals[t] = internals(t); } }

template <class T> std::unique_ptr<OndriksMTBDD<T>>& slot(MH& h);
template <> std::unique_ptr<OndriksMTBDD<int>>& slot<int>(MH& h) { return h.a; }
template <> std::unique_ptr<OndriksMTBDD<OV>>& slot<OV>(MH& h) { return h.b; }

template <class T> long value_at(const OndriksMTBDD<T>& m, size_t n) { SymbolicVarAsgn as(size_t(U), n); return Leaf<T>::from(m.GetValue(as)); }
long value_at(const MH& h, size_t n) { return h.type == 0 ? value_at(*h.a, n) : value_at(*h.b, n); }

Fn const_fn(long v) { Fn f; f.k = U; f.v.assign(NT, v); return f; }
bool matches(const std::string& asgn, size_t n, size_t off = 0) { for (size_t i = 0; i < asgn.size(); ++i) { bool bit = (n >> (i + off)) & 1; if (asgn[i] == '1' && !bit) return false; if (asgn[i] == '0' && bit) return false; } return true; }
SymbolicVarAsgn mk_asgn(const std::string& s) { SymbolicVarAsgn a(s.size()); for (size_t i = 0; i < s.size(); ++i) a.SetIthVariableValue(i, s[i] == '1' ? SymbolicVarAsgn::ONE : (s[i] == '0' ? SymbolicVarAsgn::ZERO : SymbolicVarAsgn::DONT_CARE)); return a; }

// every live diagram of every client still denotes its function; equality is function equality
void check_all(const std::string& P, const std::string& site, const std::string& after) {
	api_end(); count(c_oracle_evals);
	std::vector<MH*> all; for (auto& c : g_cl) for (auto& h : c.h) all.push_back(&h);
	for (size_t i = 0; i < all.size(); ++i) {
		MH& h = *all[i];
		for (size_t n = 0; n < NT; ++n) {
			long g = value_at(h, n); count(c_mtbdd_values_checked);
			if (g != h.model.v[n]) { violation(P + ".value", site, "a live MTBDD returns " + std::to_string(g) + " for assignment " + std::to_string(n) + " but denotes " + std::to_string(h.model.v[n]) + " (after " + after + ")"); return; }
		}
	}
	if (P == "C17") {      // "compare equal exactly when they denote the same function" is C17's sentence
		for (size_t i = 0; i < all.size(); ++i) for (size_t j = i + 1; j < all.size(); ++j) {
			if (all[i]->type != all[j]->type) continue; count(c_mtbdd_canon_checks);
			bool eq = all[i]->type == 0 ? (*all[i]->a == *all[j]->a) : (*all[i]->b == *all[j]->b);
			bool want = all[i]->model == all[j]->model;
			if (eq != want) { violation(P + ".canonicity", site, std::string("two live MTBDDs compare ") + (eq ? "equal" : "different") + " although they denote " + (want ? "the same function" : "different functions") + " (after " + after + ")"); return; }
		}
	}
	// C18: "no node is released while a live MTBDD or node refers to it": the unique tables hold at least the canonical nodes of the
	// live functions.  (Nothing is demanded about how soon unreferenced nodes go away -- only that the store is back at its baseline
	// once everything has been destroyed, see final_check.  The bound is on the whole table: nodes that were there before the first
	// construction may be shared with live diagrams.)
	if (P == "C18") for (int t = 0; t < 2; ++t) {
		std::vector<Fn> live; for (MH* h : all) if (h->type == t) live.push_back(h->model);
		size_t cl = 0, ci = 0; mdl::robdd_nodes(live, U, &cl, &ci);
		size_t gl = leaves(t), gi = internals(t);
		if (gl < cl || gi < ci) violation("C18.store-holds-live-nodes", site, "unique tables hold " + std::to_string(gl) + " leaves / " + std::to_string(gi) + " internal nodes, fewer than the " + std::to_string(cl) + " / " + std::to_string(ci) + " the live diagrams need (after " + after + ")");
	}
}
void after_step(const Step& s, const std::string& what) { api_end(); if (armed("C17")) check_all("C17", s.op, what); else if (armed("C18")) check_all("C18", s.op, what); else if (armed("C20")) {} }

template <class T> MH& add(Client& c, OndriksMTBDD<T>&& m, const Fn& f, long dflt) {
	MH h; h.type = std::is_same<T, int>::value ? 0 : 1; slot<T>(h).reset(new OndriksMTBDD<T>(std::move(m))); h.model = f; h.dflt = dflt;
	// whether a fresh result denotes the right function is C17's question; C18 asks that a live diagram never CHANGES the function it
	// denotes: in C18 runs the function of a diagram is what it returns when it is created
	if (armed("C18") && !armed("C17")) { api_end(); for (size_t n = 0; n < NT; ++n) h.model.v[n] = value_at(h, n); }
	c.h.push_back(std::move(h)); count(c_handles_created); return c.h.back();
}

template <class FN> void with_type(int type, FN fn) { if (type == 0) fn(int()); else fn(OV()); }

// ----------------------------------------------------------------- listed operations
void op_make(const Step& s) {
	take_base(); int type = int(s.arg(0) & 1); long v = s.arg(1), d = s.arg(2); const std::string& as = s.lit;
	Fn f; f.k = U; f.v.resize(NT); for (size_t n = 0; n < NT; ++n) f.v[n] = matches(as, n) ? v : d;
	api_begin();
	with_type(type, [&](auto tag) { typedef decltype(tag) T; OndriksMTBDD<T> m(mk_asgn(as), Leaf<T>::to(v), Leaf<T>::to(d)); add<T>(CL(s), std::move(m), f, d); });
	note_case(mix64(hash_str(as), uint64_t(v * 31 + d + type * 977)));
	after_step(s, "mt_make");
}
void op_const(const Step& s) {
	take_base(); int type = int(s.arg(0) & 1); long v = s.arg(1);
	api_begin();
	with_type(type, [&](auto tag) { typedef decltype(tag) T; OndriksMTBDD<T> m(Leaf<T>::to(v)); add<T>(CL(s), std::move(m), const_fn(v), v); });
	after_step(s, "mt_const");
}
void op_copy(const Step& s) {
	int type = int(s.arg(1) & 1); size_t i = HI(s, 0, type); Client& c = CL(s); Fn f = c.h[i].model; long d = c.h[i].dflt;
	api_begin();
	with_type(type, [&](auto tag) { typedef decltype(tag) T; OndriksMTBDD<T> m(*slot<T>(c.h[i])); add<T>(c, std::move(m), f, d); });
	count(c_handles_shared);
	after_step(s, "mt_copy");
}
void op_assign(const Step& s) {
	int type = int(s.arg(2) & 1); size_t i = HI(s, 0, type), j = HI(s, 1, type); Client& c = CL(s);
	api_begin();
	with_type(type, [&](auto tag) { typedef decltype(tag) T; *slot<T>(c.h[i]) = *slot<T>(c.h[j]); });     // i == j: self-assignment
	c.h[i].model = c.h[j].model; c.h[i].dflt = c.h[j].dflt; count(c_handles_shared);
	after_step(s, i == j ? "mt_self_assign" : "mt_assign");
}
void op_destroy(const Step& s) {
	int type = int(s.arg(1) & 1); size_t i = HI(s, 0, type); Client& c = CL(s);
	api_begin(); c.h.erase(c.h.begin() + long(i)); count(c_handles_destroyed);
	after_step(s, "mt_destroy");
}
void op_apply1(const Step& s) {
	int type = int(s.arg(2) & 1); size_t i = HI(s, 0, type); Client& c = CL(s); long f = s.arg(1);
	Fn r; r.k = U; r.v.resize(NT); for (size_t n = 0; n < NT; ++n) r.v[n] = leaf_fn(f, c.h[i].model.v[n]);
	long d = leaf_fn(f, c.h[i].dflt);
	api_begin();
	with_type(type, [&](auto tag) { typedef decltype(tag) T; F1<T>& fn = fn1<T>(f); OndriksMTBDD<T> m = fn(*slot<T>(c.h[i])); add<T>(c, std::move(m), r, d); });
	note_case(mix64(uint64_t(f) + 1000, hash_str(std::string(r.v.begin(), r.v.end()))));
	after_step(s, "mt_apply1");
}
void op_apply2(const Step& s) {
	int type = int(s.arg(3) & 1); size_t i = HI(s, 0, type), j = HI(s, 1, type); Client& c = CL(s); long f = s.arg(2);
	Fn r; r.k = U; r.v.resize(NT); for (size_t n = 0; n < NT; ++n) r.v[n] = leaf_fn(f, c.h[i].model.v[n], c.h[j].model.v[n]);
	long d = leaf_fn(f, c.h[i].dflt, c.h[j].dflt);
	api_begin();
	with_type(type, [&](auto tag) { typedef decltype(tag) T; F2<T>& fn = fn2<T>(f); OndriksMTBDD<T> m = fn(*slot<T>(c.h[i]), *slot<T>(c.h[j])); add<T>(c, std::move(m), r, d); });
	note_case(mix64(uint64_t(f) + 2000, hash_str(std::string(r.v.begin(), r.v.end()))));
	after_step(s, "mt_apply2");
}
void op_apply3(const Step& s) {
	int type = int(s.arg(4) & 1); size_t i = HI(s, 0, type), j = HI(s, 1, type), k = HI(s, 2, type); Client& c = CL(s); long f = s.arg(3);
	Fn r; r.k = U; r.v.resize(NT); for (size_t n = 0; n < NT; ++n) r.v[n] = leaf_fn(f, c.h[i].model.v[n], c.h[j].model.v[n], c.h[k].model.v[n]);
	long d = leaf_fn(f, c.h[i].dflt, c.h[j].dflt, c.h[k].dflt);
	api_begin();
	with_type(type, [&](auto tag) { typedef decltype(tag) T; F3<T>& fn = fn3<T>(f); OndriksMTBDD<T> m = fn(*slot<T>(c.h[i]), *slot<T>(c.h[j]), *slot<T>(c.h[k])); add<T>(c, std::move(m), r, d); });
	note_case(mix64(uint64_t(f) + 3000, hash_str(std::string(r.v.begin(), r.v.end()))));
	after_step(s, "mt_apply3");
}

// ----------------------------------------------------------------- other operations of C17 (no baseline claim)
bool depends_on(const Fn& f, int var) { for (size_t n = 0; n < NT; ++n) if (f.v[n] != f.v[n ^ (size_t(1) << var)]) return true; return false; }

void op_project(const Step& s) {
	g_only_listed_ops = false;
	int type = int(s.arg(3) & 1); size_t i = HI(s, 0, type); Client& c = CL(s); long mask = s.arg(1) & 0xff; long f = (s.arg(2) & 1) ? 1 : 6;     // max or min: idempotent, commutative, associative
	Fn r = c.h[i].model;
	for (int var = 0; var < U; ++var) if ((mask >> var) & 1) { Fn t = r; for (size_t n = 0; n < NT; ++n) t.v[n] = leaf_fn(f, r.v[n & ~(size_t(1) << var)], r.v[n | (size_t(1) << var)]); r = t; }
	long d = c.h[i].dflt;
	api_begin();
	with_type(type, [&](auto tag) { typedef decltype(tag) T; F2<T>& fn = fn2<T>(f); OndriksMTBDD<T> m = slot<T>(c.h[i])->Project([mask](size_t var) { return ((mask >> var) & 1) != 0; }, fn); add<T>(c, std::move(m), r, d); });
	note_case(mix64(uint64_t(mask) + 4000, hash_str(std::string(r.v.begin(), r.v.end()))));
	after_step(s, "mt_project");
}

void op_rename(const Step& s) {
	g_only_listed_ops = false;
	int type = int(s.arg(2) & 1); size_t i = HI(s, 0, type); Client& c = CL(s);
	const Fn& f = c.h[i].model; int top = -1; for (int var = 0; var < U; ++var) if (depends_on(f, var)) top = var;
	// strictly monotone on ALL variables (the contract): var -> var + (var >= t ? shift : 0)
	int shift = int(1 + mod(s.arg(1), 2)), t = int(mod(s.arg(1) / 2, size_t(U)));
	if (top + shift >= U) throw Skip();
	auto m = [shift, t](size_t var) { return var + (int(var) >= t ? size_t(shift) : 0); };
	Fn r; r.k = U; r.v.resize(NT);
	for (size_t y = 0; y < NT; ++y) { size_t x = 0; for (int var = 0; var <= top; ++var) if ((y >> m(size_t(var))) & 1) x |= size_t(1) << var; r.v[y] = f.v[x]; }
	long d = c.h[i].dflt;
	api_begin();
	with_type(type, [&](auto tag) { typedef decltype(tag) T; OndriksMTBDD<T> x = slot<T>(c.h[i])->Rename(m); add<T>(c, std::move(x), r, d); });
	note_case(mix64(uint64_t(shift * 10 + t) + 5000, hash_str(std::string(r.v.begin(), r.v.end()))));
	after_step(s, "mt_rename");
}

void op_extend(const Step& s) {
	g_only_listed_ops = false;
	int type = int(s.arg(1) & 1); size_t i = HI(s, 0, type); Client& c = CL(s); const Fn& f = c.h[i].model;
	int top = -1; for (int var = 0; var < U; ++var) if (depends_on(f, var)) top = var;
	const std::string& as = s.lit; size_t off = size_t(top + 1 + int(mod(s.arg(2), 2)));
	if (as.empty() || off + as.size() > size_t(U)) throw Skip();
	long d = c.h[i].dflt; Fn r; r.k = U; r.v.resize(NT);
	for (size_t n = 0; n < NT; ++n) r.v[n] = matches(as, n, off) ? f.v[n] : d;
	// the prefix variables are new: the result ignores what the old function did with them (it did not depend on them)
	api_begin();
	with_type(type, [&](auto tag) { typedef decltype(tag) T; OndriksMTBDD<T> x = slot<T>(c.h[i])->ExtendWith(mk_asgn(as), off); add<T>(c, std::move(x), r, d); });
	note_case(mix64(hash_str(as) + off + 6000, hash_str(std::string(r.v.begin(), r.v.end()))));
	after_step(s, "mt_extend");
}

void op_prefix(const Step& s) {
	g_only_listed_ops = false;
	int type = int(s.arg(1) & 1); size_t i = HI(s, 0, type); Client& c = CL(s); const Fn& f = c.h[i].model;
	size_t off = size_t(mod(s.arg(2), size_t(U))); std::string as = s.lit; as.resize(size_t(U) - off, 'X');
	// variables >= off are fixed by the prefix (ONE -> 1, ZERO / don't care -> 0); the result depends on variables < off only
	Fn r; r.k = U; r.v.resize(NT);
	for (size_t n = 0; n < NT; ++n) { size_t x = n & ((size_t(1) << off) - 1); for (size_t k = 0; k < as.size(); ++k) if (as[k] == '1') x |= size_t(1) << (off + k); r.v[n] = f.v[x]; }
	long d = c.h[i].dflt;
	api_begin();
	with_type(type, [&](auto tag) { typedef decltype(tag) T; OndriksMTBDD<T> x = slot<T>(c.h[i])->GetMtbddForPrefix(mk_asgn(as), off); add<T>(c, std::move(x), r, d); });
	note_case(mix64(hash_str(as) + off + 7000, hash_str(std::string(r.v.begin(), r.v.end()))));
	after_step(s, "mt_prefix");
}

void op_paths(const Step& s) {
	int type = int(s.arg(1) & 1); size_t i = HI(s, 0, type); Client& c = CL(s); const Fn& f = c.h[i].model;
	api_begin();
	std::vector<std::pair<std::string, long>> paths;
	with_type(type, [&](auto tag) { typedef decltype(tag) T; for (auto& p : slot<T>(c.h[i])->GetPaths()) { std::string a; for (size_t k = 0; k < p.first.length(); ++k) { char v = p.first.GetIthVariableValue(k); a += v == SymbolicVarAsgn::ONE ? '1' : (v == SymbolicVarAsgn::ZERO ? '0' : 'X'); } paths.push_back(std::make_pair(a, Leaf<T>::from(p.second))); } });
	api_end();
	if (armed("C17")) {
		count(c_oracle_evals);
		for (size_t n = 0; n < NT; ++n) {
			int hits = 0; long val = 0; for (auto& p : paths) if (matches(p.first, n)) { ++hits; val = p.second; }
			if (hits != 1) { violation("C17.paths-partition", "mt_paths", "assignment " + std::to_string(n) + " is covered by " + std::to_string(hits) + " paths"); return; }
			if (val != f.v[n]) { violation("C17.paths-value", "mt_paths", "the path covering assignment " + std::to_string(n) + " carries " + std::to_string(val) + ", the function value is " + std::to_string(f.v[n])); return; }
		}
	}
}

void abort_client(int c, uint64_t seed) {
	if (size_t(c) >= g_cl.size()) return; Rng r(seed + 53); auto& v = g_cl[size_t(c)].h;
	while (!v.empty()) { size_t i = size_t(r.below(v.size())); v.erase(v.begin() + long(i)); count(c_handles_destroyed); }
	if (armed("C17")) check_all("C17", "abort", "abort of client " + std::to_string(c)); else if (armed("C18")) check_all("C18", "abort", "abort of client " + std::to_string(c));
}

void final_check() {
	f1_pool<int>().clear(); f2_pool<int>().clear(); f3_pool<int>().clear(); f1_pool<OV>().clear(); f2_pool<OV>().clear(); f3_pool<OV>().clear();
	if (!g_base_taken) return;
	if (armed("C17")) check_all("C17", "<final>", "the end of the run"); else if (armed("C18")) check_all("C18", "<final>", "the end of the run");
	// destroy everything in a drawn-by-position order, then the store must be back at its baseline
	for (auto& c : g_cl) while (!c.h.empty()) { c.h.erase(c.h.begin() + long(c.h.size() / 2)); }
	if (g_only_listed_ops && armed("C18")) {
		count(c_mtbdd_baseline_checks);
		for (int t = 0; t < 2; ++t)
			if (leaves(t) != g_base_leaves[t] || internals(t) != g_base_internals[t])
				violation("C18.store-back-to-baseline", "<final>", std::string("after every MTBDD was destroyed the unique tables of leaf type ") + (t ? "ordered-set" : "int") + " hold " + std::to_string(leaves(t)) + " leaves / " + std::to_string(internals(t)) + " internal nodes; before the first construction they held " + std::to_string(g_base_leaves[t]) + " / " + std::to_string(g_base_internals[t]));
	}
}

std::string rand_asgn(Rng& r, int k) { std::string s; for (int i = 0; i < k; ++i) { uint64_t x = r.below(10); s += x < 4 ? '0' : (x < 8 ? '1' : 'X'); } return s; }

std::vector<Step> mt_program(Rng& r, int c, int len, int K, bool listed_only, bool churny) {
	std::vector<Step> out; int n[2] = {0, 0};
	auto any = [&](int t) { return n[t] ? long(r.below(uint64_t(n[t]))) : 0l; };
	for (int i = 0; i < len; ++i) {
		int t = r.chance(1, 4) ? 1 : 0; uint64_t x = r.below(100);
		if (n[t] == 0 || x < 25) { out.push_back(gen::mk(c, "mt_make", {t, long(r.below(7)), long(r.below(3))}, rand_asgn(r, r.range(1, K)))); ++n[t]; }
		else if (x < 28) { out.push_back(gen::mk(c, "mt_const", {t, long(r.below(5))})); ++n[t]; }
		else if (x < 38) { out.push_back(gen::mk(c, "mt_copy", {any(t), t})); ++n[t]; }
		else if (x < 46) { long a = any(t); out.push_back(gen::mk(c, "mt_assign", {a, r.chance(1, 5) ? a : any(t), t})); }
		else if (x < 58 || (churny && x < 75)) { if (n[t] > 1) { out.push_back(gen::mk(c, "mt_destroy", {any(t), t})); --n[t]; } }
		else if (x < 64) { out.push_back(gen::mk(c, "mt_apply1", {any(t), long(r.below(8)), t})); ++n[t]; }
		else if (x < 80) { out.push_back(gen::mk(c, "mt_apply2", {any(t), any(t), long(r.below(8)), t})); ++n[t]; }
		else if (x < 85) { out.push_back(gen::mk(c, "mt_apply3", {any(t), any(t), any(t), long(r.below(8)), t})); ++n[t]; }
		else if (listed_only) { out.push_back(gen::mk(c, "churn", {long(r.below(100000)), long(r.range(4, 40))})); }
		else if (x < 89) { out.push_back(gen::mk(c, "mt_project", {any(t), long(r.below(64)), long(r.below(2)), t})); ++n[t]; }
		else if (x < 92) { out.push_back(gen::mk(c, "mt_rename", {any(t), long(r.below(32)), t})); ++n[t]; }
		else if (x < 95) { out.push_back(gen::mk(c, "mt_extend", {any(t), t, long(r.below(2))}, rand_asgn(r, r.range(1, 2)))); ++n[t]; }
		else if (x < 98) { out.push_back(gen::mk(c, "mt_prefix", {any(t), t, long(r.below(8))}, rand_asgn(r, r.range(1, 4)))); ++n[t]; }
		else out.push_back(gen::mk(c, "mt_paths", {any(t), t}));
	}
	// self-assignment: mt_assign h h is generated by equal slots; make sure it occurs
	if (n[0]) out.push_back(gen::mk(c, "mt_assign", {0, 0, 0}));
	if (!listed_only && r.chance(1, 3)) {
		// "default twins": one function built twice with the roles of value and default value exchanged (v where bit i is 1, d
		// elsewhere; d where bit i is 0, v elsewhere), or a constant built as a constant and as "v everywhere, default d": the two
		// handles denote the same function - the same canonical diagram - with different default values.  One is assigned over
		// the other; what the target does afterwards (prefix extension fills the new region with ITS default) is the source's business.
		int t = 0; long v = long(1 + r.below(6)), d = long(r.below(3)); if (d == v) d = v + 1;
		int bit = int(r.below(uint64_t(K))); std::string one(size_t(K), 'X'), zero(size_t(K), 'X'); one[size_t(bit)] = '1'; zero[size_t(bit)] = '0';
		int h1 = n[t], h2 = n[t] + 1;
		if (r.chance(1, 3)) { out.push_back(gen::mk(c, "mt_const", {t, v})); out.push_back(gen::mk(c, "mt_make", {t, v, d}, std::string(size_t(K), 'X'))); }
		else { out.push_back(gen::mk(c, "mt_make", {t, v, d}, one)); out.push_back(gen::mk(c, "mt_make", {t, d, v}, zero)); }
		n[t] += 2;
		if (r.chance(1, 2)) std::swap(h1, h2);
		out.push_back(gen::mk(c, "mt_assign", {h1, h2, t}));
		out.push_back(gen::mk(c, "mt_extend", {h1, t, long(r.below(2))}, rand_asgn(r, r.range(1, 2)))); ++n[t];
		if (r.chance(1, 2)) { out.push_back(gen::mk(c, "mt_apply2", {h1, h2, long(r.below(8)), t})); ++n[t]; out.push_back(gen::mk(c, "mt_extend", {n[t] - 1, t, long(r.below(2))}, rand_asgn(r, r.range(1, 2)))); ++n[t]; }
	}
	return out;
}

// Many rounds of "build, project with the SAME long-lived functor, drop the operand, keep the result": the
// functor's memo is keyed by node addresses, the operands' nodes die between the calls and (under immediate
// reuse) their addresses come back denoting other functions.
std::vector<Step> mt_project_loop(Rng& r, int c, int rounds, int K) {
	std::vector<Step> out; int n = 0; long f = long(r.below(2));
	for (int i = 0; i < rounds; ++i) {
		int parts = r.range(1, 3);
		out.push_back(gen::mk(c, "mt_make", {0, long(1 + r.below(6)), long(r.below(2))}, rand_asgn(r, K))); ++n;
		for (int k = 1; k < parts; ++k) {
			out.push_back(gen::mk(c, "mt_make", {0, long(1 + r.below(6)), long(r.below(2))}, rand_asgn(r, K))); ++n;
			out.push_back(gen::mk(c, "mt_apply2", {n - 2, n - 1, 1, 0})); ++n;                         // max: the pooled functor is shared with Project
			out.push_back(gen::mk(c, "mt_destroy", {n - 2, 0})); --n; out.push_back(gen::mk(c, "mt_destroy", {n - 2, 0})); --n;
		}
		out.push_back(gen::mk(c, "mt_project", {n - 1, long(1 + r.below((1u << K) - 1)), f, 0})); ++n;
		out.push_back(gen::mk(c, "mt_destroy", {n - 2, 0})); --n;                                      // the operand dies, the projection stays
		if (n > 6) { out.push_back(gen::mk(c, "mt_destroy", {long(r.below(uint64_t(n - 1))), 0})); --n; }
	}
	return out;
}

// the same operand is projected again through the same (pooled) functor object after the first projection has been
// destroyed: whatever a functor remembers between calls must not outlive the nodes it points to
std::vector<Step> mt_reproject_loop(Rng& r, int c, int rounds, int K) {
	std::vector<Step> out; int n = 0; long f = long(r.below(2));
	out.push_back(gen::mk(c, "mt_make", {0, long(1 + r.below(6)), long(r.below(2))}, rand_asgn(r, K))); ++n;
	int parts = r.range(1, 3);
	for (int k = 0; k < parts; ++k) {
		out.push_back(gen::mk(c, "mt_make", {0, long(1 + r.below(6)), long(r.below(2))}, rand_asgn(r, K))); ++n;
		out.push_back(gen::mk(c, "mt_apply2", {n - 2, n - 1, long(r.chance(1, 2) ? 1 : 6), 0})); ++n;
		out.push_back(gen::mk(c, "mt_destroy", {n - 2, 0})); --n; out.push_back(gen::mk(c, "mt_destroy", {n - 2, 0})); --n;
	}
	// handle 0 is the operand A from here on
	for (int i = 0; i < rounds; ++i) {
		long mask = long(1 + r.below((1u << K) - 1));
		out.push_back(gen::mk(c, "mt_project", {0, mask, f, 0})); ++n;
		if (r.chance(1, 3)) { out.push_back(gen::mk(c, "mt_copy", {n - 1, 0})); ++n; out.push_back(gen::mk(c, "mt_destroy", {n - 1, 0})); --n; }
		out.push_back(gen::mk(c, "mt_destroy", {n - 1, 0})); --n;                                        // the projection dies
		if (r.chance(1, 2)) { out.push_back(gen::mk(c, "mt_make", {0, long(1 + r.below(6)), long(r.below(2))}, rand_asgn(r, K))); ++n; if (r.chance(1, 2)) { out.push_back(gen::mk(c, "mt_destroy", {n - 1, 0})); --n; } }
		out.push_back(gen::mk(c, "mt_project", {0, r.chance(2, 3) ? mask : long(1 + r.below((1u << K) - 1)), f, 0})); ++n;      // ... and is asked for again
		if (n > 5) { out.push_back(gen::mk(c, "mt_destroy", {long(1 + r.below(uint64_t(n - 1))), 0})); --n; }
	}
	return out;
}

} // namespace

namespace vsim {

static void finish(Plan& p, Rng& r, std::vector<std::vector<Step>>& progs, int abort_pct) {
	p.clients = int(progs.size()); p.steps = gen::interleave(r, progs, int(r.below(3)));
	if (abort_pct > 0 && p.clients > 1 && int(r.below(100)) < abort_pct && p.steps.size() > 4) {
		int victim = int(r.below(uint64_t(p.clients))); size_t at = size_t(r.range(2, int(p.steps.size()) - 1));
		p.steps.insert(p.steps.begin() + long(at), gen::mk(victim, "abort", {victim, long(r.below(100000))}));
	}
}

Plan plan_C17(Rng& r, const std::string&) {
	Plan p; p.env = gen::gen_env(r); int ncl = r.range(1, 3), K = r.range(1, 6); bool listed = r.chance(1, 4);
	std::vector<std::vector<Step>> progs;
	bool loop = r.chance(1, 4); if (loop && r.chance(2, 3)) p.env.reuse = simheap::R_LIFO;
	for (int c = 0; c < ncl; ++c) progs.push_back(loop && c == 0 ? mt_project_loop(r, c, r.range(10, 40), r.range(2, 4)) : mt_program(r, c, r.range(6, 24), K, listed, c > 0 && r.chance(1, 2)));
	finish(p, r, progs, loop ? 0 : 20);
	return p;
}

Plan plan_C18(Rng& r, const std::string&) {
	Plan p; p.env = gen::gen_env(r); if (r.chance(1, 2)) p.env.reuse = simheap::R_LIFO;     // a premature release is reused at once
	int ncl = r.range(1, 4), K = r.range(1, 6); bool listed = !r.chance(1, 5);
	std::vector<std::vector<Step>> progs;
	bool reproject = !listed && r.chance(1, 2);
	for (int c = 0; c < ncl; ++c) progs.push_back(reproject && c == 0 ? mt_reproject_loop(r, c, r.range(2, 8), r.range(1, 4)) : mt_program(r, c, r.range(8, 30), K, listed, r.chance(1, 2)));
	finish(p, r, progs, reproject ? 10 : 30);
	return p;
}

void register_mtbdd_ops() {
	register_op("mt_make", op_make); register_op("mt_const", op_const); register_op("mt_copy", op_copy); register_op("mt_assign", op_assign); register_op("mt_destroy", op_destroy);
	register_op("mt_apply1", op_apply1); register_op("mt_apply2", op_apply2); register_op("mt_apply3", op_apply3);
	register_op("mt_project", op_project); register_op("mt_rename", op_rename); register_op("mt_extend", op_extend); register_op("mt_prefix", op_prefix); register_op("mt_paths", op_paths);
	register_abort_hook(abort_client); register_final_hook(final_check);
}

} // namespace vsim
