// placeholders until the modules exist
#include "world.hh"
#include "profiles.hh"
namespace vsim {
void register_mtbdd_ops() {}
void register_text_ops() {}
void register_corpus_ops() {}
}
