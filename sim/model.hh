// Reference models (DESIGN.md 2.6).  Small, value-semantic, exponential where
// it has to be; shares no code or data structure with libvata.
#pragma once
#include <cstdint>
#include <string>
#include <vector>
#include <set>
#include <map>
#include <utility>
#include <tuple>

namespace mdl {

// ------------------------------------------------------------- tree automata
// A symbol is a (name, rank) pair; the rank is the number of children of the
// rule, so a rule carries only the name.
struct Rule {
	long parent = 0;
	std::string sym;
	std::vector<long> ch;
	bool operator<(const Rule& o) const { return std::tie(parent, sym, ch) < std::tie(o.parent, o.sym, o.ch); }
	bool operator==(const Rule& o) const { return parent == o.parent && sym == o.sym && ch == o.ch; }
};

struct TA {
	std::set<Rule> rules;
	std::set<long> finals;
	bool operator==(const TA& o) const { return rules == o.rules && finals == o.finals; }
	bool operator!=(const TA& o) const { return !(*this == o); }
	std::set<long> states() const;                 // occurring in a rule or in the final set
	std::set<long> rule_states() const;            // occurring in a rule
	std::set<std::pair<std::string, int>> symbols() const;
	uint64_t hash() const;
};

typedef std::pair<std::string, int> Sym;
typedef std::set<Sym> Alphabet;

std::string to_lit(const TA& a);                  // "F 1 2 ; a(0,1)>2 ; b()>0"
TA from_lit(const std::string& s);
std::string to_timbuk(const TA& a, const std::string& prefix = "q", const Alphabet* extra_syms = nullptr, bool parens_on_nullary = false);
std::string diff(const TA& expected, const TA& got);

TA rename(const TA& a, const std::map<long, long>& m);       // image under a (partial => identity) state map
TA rename_syms(const TA& a, const std::map<std::string, std::string>& m);
TA unite(const TA& a, const TA& b);                            // plain union of rule/final sets
TA unite_tagged(const TA& a, const TA& b, std::map<long, long>* ma = nullptr, std::map<long, long>* mb = nullptr);
TA isect(const TA& a, const TA& b, std::map<std::pair<long, long>, long>* pm = nullptr);   // full product
std::set<long> productive(const TA& a);           // bottom-up
std::set<long> reachable(const TA& a);            // top-down from final states
TA trim_useless(const TA& a);
TA trim_unreachable(const TA& a);
bool is_empty(const TA& a);

// Exact language inclusion by bottom-up subset construction.  Returns -1 when
// the explored pair set exceeds `limit` (oracle gives up), else 0/1.
int incl(const TA& a, const TA& b, size_t limit = 200000);
int equiv(const TA& a, const TA& b, size_t limit = 200000);
// all trees over `sigma` accepted by exactly one of a and c (complement check):
// returns 1 ok, 0 not complement (why filled), -1 too big
int is_complement(const TA& a, const TA& c, const Alphabet& sigma, std::string* why, size_t limit = 200000);

typedef std::set<std::pair<long, long>> Rel;
Rel down_sim(const TA& a);                        // greatest downward simulation on states()
Rel up_sim(const TA& a);                          // greatest upward simulation (induced by identity), C04's definition

// brute force, for self-tests of the oracles
struct Tree { std::string sym; std::vector<Tree> ch; };
bool accepts(const TA& a, const Tree& t);
void enum_trees(const Alphabet& sigma, int depth, std::vector<Tree>& out, size_t cap);
std::string tree_str(const Tree& t);
// a random accepted tree (top-down expansion along rules whose children can still finish within the depth budget); false if the language is empty
bool sample_tree(const TA& a, uint64_t seed, int max_depth, Tree& out);

// ------------------------------------------------------------- word automata
struct Edge {
	long src; std::string sym; long dst;
	bool operator<(const Edge& o) const { return std::tie(src, sym, dst) < std::tie(o.src, o.sym, o.dst); }
	bool operator==(const Edge& o) const { return src == o.src && sym == o.sym && dst == o.dst; }
};
struct FA {
	std::set<Edge> edges;
	std::set<long> starts, finals;
	std::map<long, std::set<std::string>> start_syms;   // symbols written on the start arrows
	bool operator==(const FA& o) const { return edges == o.edges && starts == o.starts && finals == o.finals; }
	std::set<long> states() const;
	uint64_t hash() const;
};
std::string to_lit(const FA& a);
FA fa_from_lit(const std::string& s);
std::string to_timbuk(const FA& a, const std::string& prefix = "q");
int incl(const FA& a, const FA& b, size_t limit = 200000);
int equiv(const FA& a, const FA& b, size_t limit = 200000);
FA unite_tagged(const FA& a, const FA& b);
FA unite(const FA& a, const FA& b);
FA isect(const FA& a, const FA& b);
FA reverse(const FA& a);
FA rename(const FA& a, const std::map<long, long>& m);
bool is_empty(const FA& a);
Rel fwd_sim(const FA& a, const std::set<long>& dom);   // greatest forward simulation on dom that respects final states (p <= q: q final if p is, every move of p matched by q)
bool accepts(const FA& a, const std::vector<std::string>& w);

// ------------------------------------------------------------- independent Timbuk reader (oracles only)
struct Desc {
	std::string name;
	std::set<Sym> ops;
	std::set<std::string> states, finals;
	std::set<std::tuple<std::string, std::vector<std::string>, std::string>> trans;   // (symbol, children, parent)
	bool operator==(const Desc& o) const { return finals == o.finals && trans == o.trans; }
};
bool parse_timbuk_ref(const std::string& text, Desc& d, std::string* err = nullptr);
std::string desc_to_timbuk(const Desc& d, bool parens_on_nullary = false);
// interpret a description whose state names are [prefix]<number>
bool desc_to_ta(const Desc& d, const std::string& prefix, TA& out);
bool desc_to_fa(const Desc& d, const std::string& prefix, FA& out);

// ------------------------------------------------------------- MTBDD functions
// total function {0,1}^k -> long as a table of 2^k entries; bit i of the
// index is the value of variable i.
struct Fn {
	int k = 0;
	std::vector<long> v;
	bool operator==(const Fn& o) const { return v == o.v; }
	bool operator<(const Fn& o) const { return v < o.v; }
};
size_t robdd_nodes(const std::vector<Fn>& fns, int k, size_t* leaves = nullptr, size_t* internals = nullptr);

} // namespace mdl
