#!/usr/bin/env python3
"""prints the prompt for a mutant-writing sub-agent: only the property text and a scratch worktree"""
import json, sys
pid, wt = sys.argv[1], sys.argv[2]
variant = sys.argv[3] if len(sys.argv) > 3 else ""
prop = None
for l in open('/verif/properties.jsonl'):
    p = json.loads(l)
    if p['id'] == pid: prop = p
text = json.dumps(prop, indent=1, ensure_ascii=False)
print(f"""You are helping to evaluate a verification effort for the C++ library libvata (ondrik/libvata: nondeterministic finite tree and word automata; explicit and MTBDD-based encodings; antichain/congruence inclusion checking; simulation; reduction).

You have your own scratch git worktree of the repository at {wt} (a checkout of the current HEAD). Work ONLY inside {wt}. Do not read or touch /repo, /verif or any other directory outside {wt} (except standard system headers/tools).

Here is one semantic property the library is supposed to satisfy (JSON record; the `anchors` name the code that is meant to make it hold):

{text}

YOUR TASK: write a realistic change (a plausible regression or well-meant "optimisation"/refactoring a maintainer could make) to the library sources under {wt}/src, {wt}/include or {wt}/cli that BREAKS this property, while the library still compiles and the existing test suite still passes exactly as before. {variant}

Requirements for the change:
 1. It must need something SPECIFIC to manifest: a particular kind of input, a multi-step sequence of operations, a particular history in the process (other automata created/destroyed/copied before), a particular memory layout / address reuse, two cooperating sites that each look fine alone, an unusual-but-legal parameter combination... NOT something that ordinary use (e.g. the first call on a typical automaton) would expose at once, and not a change that makes every call fail.
 2. It must be small (typically 1-15 changed lines), look innocent, and must not touch the tests.
 3. The existing test suite must still pass with it. Build and run it like this:
      cd {wt} && cmake -G Ninja -B _build -DCMAKE_BUILD_TYPE=RelWithDebInfo -DCMAKE_CXX_FLAGS=-Wno-error . >/dev/null && cmake --build _build -j6 2>&1 | tail -3
      for t in ondriks_mtbdd_c_test timbuk_parser_test bdd_bu_tree_aut_test bdd_td_tree_aut_test explicit_tree_aut_test; do (cd _build/unit_tests && ./$t --log_level=test_suite) 2>&1 | grep -E "error|No errors"; done
    NOTE: on the UNCHANGED tree exactly two cases of bdd_bu_tree_aut_test already fail (suite/aut_down_inclusion_rec_nosim and suite/aut_down_inclusion_opt_rec_nosim, both with NotImplementedException); every other case passes. Your change must leave exactly this picture. (A full build takes 1-2 minutes; the bdd_bu test ~20 s.)
 4. Write a DEMONSTRATION: a small stand-alone C++ program (demo.cc) using the library's public API (or internal headers under src/ if needed) that exits 0 / prints PASS on the unchanged tree and exits non-zero / prints FAIL with your change applied, because the property is violated. Compile it against the built static library, e.g.
      g++ -std=c++11 -DNDEBUG -I{wt}/include -I{wt} demo.cc {wt}/_build/src/libvata.a -o demo
    (the library is built with NDEBUG in RelWithDebInfo, so asserts are off - do not rely on assertions firing).
    Verify BOTH directions yourself: with the change (FAIL) and with the change reverted (save it with `git diff > /tmp/<your-worktree-name>.diff`, `git checkout -- src include cli`, rebuild: PASS; then `git apply` it again). Do NOT use `git stash` (the stash is shared between worktrees).
 5. When done, create the directory {wt}/MUTANT containing:
      patch.diff   - output of `git diff` for your change (library sources only)
      demo.cc      - the demonstration, with the exact compile/run command in a comment at the top
      meta.json    - {{"property": "{pid}", "summary": "<one paragraph: what the change does>", "needs_to_manifest": "<what specific input / sequence / history / layout is needed>", "why_tests_pass": "<why the existing suite does not notice>", "demo_result_with_change": "...", "demo_result_without_change": "..."}}
    Leave the change APPLIED in the worktree when you finish, and make sure MUTANT/patch.diff applies cleanly to a fresh checkout of HEAD with `git apply`.

Be creative but realistic: think about which input classes, parameter selections, sharing/copy-on-write situations, cache invalidation paths, corner cases named in the property's quantifier, or process-history dependencies the existing tests never exercise. Prefer subtle semantic damage (wrong verdict/result in rare situations, stale cache entry, missed un-sharing, off-by-one on a boundary, missed case in a dispatch) over crashes. Report briefly what you did at the end.""")
