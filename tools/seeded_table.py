#!/usr/bin/env python3
"""fills the SEEDED_ROWS table of DESIGN.md section 8 from /verif/seeded/*/meta.json (idempotent: rewrites between markers)"""
import json, os, re, glob
rows = []
for d in sorted(glob.glob('/verif/seeded/*/')):
    sid = os.path.basename(d.rstrip('/'))
    m = json.load(open(d + 'meta.json'))
    def cell(x): return ' '.join(str(x).replace('|', '/').split())
    caught = []
    for r in m.get('checks_run', {}).get('results', []):
        caught.append(cell(r)[:220])
    if m.get('checks_run', {}).get('after_strengthening'): caught.append(cell(m['checks_run']['after_strengthening'])[:700])
    if m.get('obsolete_since'): caught.append('OBSOLETE: ' + cell(m['obsolete_since'])[:260])
    rows.append('| %s | %s | %s | %s | |' % (sid, cell(m.get('summary', ''))[:330], cell(m.get('needs_to_manifest', ''))[:260], '<br>'.join(caught)))
p = '/verif/DESIGN.md'; s = open(p).read()
block = '<!-- seeded:begin -->\n' + '\n'.join(rows) + '\n<!-- seeded:end -->'
if 'SEEDED_ROWS' in s: s = s.replace('SEEDED_ROWS', block)
else: s = re.sub(r'<!-- seeded:begin -->.*?<!-- seeded:end -->', lambda _: block, s, flags=re.S)
open(p, 'w').write(s)
print(len(rows), 'rows')
