#!/usr/bin/env python3
"""Regenerates /verif/MANIFEST.json from profiles_meta.py (so the two cannot drift apart)."""
import json, os, sys
ROOT = os.path.dirname(os.path.dirname(os.path.abspath(__file__)))
sys.path.insert(0, ROOT)
from profiles_meta import META, NOT_APPLICABLE

LEVEL_TEXT = {
 "C01": "Seeded search over simulated runs: every inclusion verdict of every selection is compared with an exact reference on small automata while heap layout, address reuse, memory noise and the process history (other clients, shared symbols, shared storage) vary per run. Exploration is the right level: the claim quantifies over all pairs and environments, the exact oracle is exponential, so the space is sampled, not enumerated.",
 "C02": "Seeded search; exact language oracle on small operands plus structural map checks; the environment (layout-dependent product numbering, copy-on-write sharing, later mutation) is what the simulator adds to input generation.",
 "C03": "Seeded search; exact language equality on small automata, model-computed reachability/usefulness post-conditions up to 40 states; results and operands that share storage are mutated afterwards and re-read.",
 "C04": "Seeded search; the returned relation is compared pair by pair with the naive greatest fix-point of the property's own definitions, under drawn dense numberings, layouts and histories (the LTS construction order follows pointer-keyed containers).",
 "C05": "Seeded search; exact language equality (small) or equality with the model's simulation quotient (larger), size and image conditions.",
 "C06": "Seeded search over automata and alphabet histories (the alphabet is a shared, growing, process-wide object); exact complement check over the dictionary content at call time.",
 "C07": "Seeded search; both BDD encodings, every implemented selection and several unimplemented ones, exact reference verdicts, shape-biased pairs; node addresses (unique tables, apply memos) vary with the simulated heap.",
 "C08": "Seeded search over histories of automata sharing transition tables; after every step every live handle must still denote its model language (exact oracle through dump + independent reader).",
 "C09": "Seeded search; exact NFA inclusion oracle; three algorithms, two call paths, process-wide alphabet history varied; hangs detected by a deterministic tick budget.",
 "C10": "Seeded search; exact NFA language oracles for every listed operation, results read back through the only observer the class has.",
 "C11": "Seeded search over interleaved multi-client histories with aborts; refinement against a private sequential model per handle, re-read through every live handle after every mutating step; this is the simulator's home ground.",
 "C12": "Seeded search over mutator / view histories in which multi-step views are interleaved with mutations and destruction of sharing copies and with read-only observers.",
 "C13": "The single-fault space (truncation points, line drop / duplication / swap, zero tails) of every shipped small text is enumerated completely and fed to the parser and all four loaders, and every single-byte substitution (every position x eleven values) of the same texts to the parser and the explicit tree loader; generated texts get strict round trips and their complete single-fault space; byte flips for the other loaders, random strings and splices are sampled.",
 "C14": "Seeded search; the result must equal the model image rule for rule, including destinations that share storage with other handles.",
 "C15": "Seeded search; exact sub-language and non-emptiness oracle for whichever witness the layout-dependent visiting order keeps.",
 "C17": "Seeded search over construction orders in one process-wide node store; truth-table model of every live diagram after every step; canonicity across all handles of all clients.",
 "C18": "Seeded search over handle histories with immediate address reuse, scribbling and poisoning; unique-table sizes must equal the canonical node count of the live functions and return to the baseline.",
 "C19": "Seeded search; metamorphic: verdicts, relations and sizes must agree between an input and its renamed / re-ordered / re-registered twin and across all algorithm variants, obey the inclusion laws, and match the verdict tables shipped with the repository.",
 "C20": "All other workloads under AddressSanitizer + UBSan on a poisoned simulated heap that reuses addresses at once, plus the noise differential for reads of indeterminate memory.",
}

def main():
    checks = []
    for pid in sorted(META):
        m = META[pid]
        checks.append({
            "property_id": pid,
            "quick_cmd": "./check %s --tier quick" % pid,
            "thorough_cmd": "./check %s --tier thorough" % pid,
            "evidence_file": "evidence/%s.json" % pid,
            "replay_cmd_template": "./replay {path}",
            "engine": "vsim",
            "level_claimed": {"category": m["level"], "text": LEVEL_TEXT[pid], "design_ref": "DESIGN.md section 3 (%s), section 2" % pid},
            "level_note": "Trusted base: the harness (sim/*.cc), its reference models (cross-checked against brute-force enumeration by `vsim selftest oracles`), g++ 12 and its sanitizers. Assumes the library is built as shipped (-DNDEBUG). Sampling: a clean batch is evidence, not proof. " + " ".join(m["assumptions"][4:]),
            "technique": "deterministic simulation with fault injection: seeded search over simulated runs (seeded heap placement / address reuse / memory+stack noise, multi-client interleavings over process-wide state, client aborts, Timbuk-text storage faults) against executable reference models; failing seeds are gated, minimised and written as replay traces" + ("; complete enumeration of the single-fault space per stored text" if m["level"] == "fault_enumeration" else ""),
        })
    man = {
        "version": 1,
        "setup_cmd": "make -j16 FLAVOR=plain && make -j16 FLAVOR=san && make -j16 FLAVOR=dbg && build/plain/vsim selftest oracles && build/plain/vsim selftest known",
        "hooks": {
            "guard": "LIBVATA_VERIF",
            "enable": "/verif/Makefile passes -DLIBVATA_VERIF to every translation unit; no hook exists in /repo (all seams are link-time `operator new`, an existing friend declaration of OndriksMTBDD, or the public API), so the define currently guards nothing",
            "baseline_off_cmd": "cmake --build /repo/_build && ctest --test-dir /repo/_build -j8 --timeout 900",
            "source_commits": [],
            "add_only": True,
        },
        "engines": [{
            "name": "vsim", "path": "sim/ (built into build/plain/vsim and build/san/vsim by Makefile), driven by ./check",
            "serves_properties": sorted(META),
            "kind_free_text": "deterministic simulator: pristine zygote + one forked child per run, seeded simulated heap (fixed-address arena, placement / reuse / noise policies, ASan poisoning), multi-client step scheduler over the real library, simulated Timbuk file store with storage faults, reference models, gate + minimiser + replay",
        }],
        "checks": checks,
        "not_applicable": [{"property_id": k, "reason": v} for k, v in sorted(NOT_APPLICABLE.items())],
        "notes": "All checks rebuild from /repo's working tree through `make` (dependency-tracked). Fixes of genuine defects found on the unchanged tree are the 'fix:' commits in /repo listed in known_findings.txt. exit 2 of a check means a harness fault (non-reproducible failure, build error), never a violation.",
    }
    with open(os.path.join(ROOT, "MANIFEST.json"), "w") as f:
        json.dump(man, f, indent=1)
    print("MANIFEST.json written: %d checks, %d not applicable" % (len(checks), len(man["not_applicable"])))

if __name__ == "__main__":
    main()
