#!/usr/bin/env python3
"""fills the benign-changes table of DESIGN.md section 8 from /verif/benign/*/meta.json (idempotent: rewrites between markers)"""
import json, os, re, glob
rows = []
for d in sorted(glob.glob('/verif/benign/*/')):
    bid = os.path.basename(d.rstrip('/'))
    m = json.load(open(d + 'meta.json'))
    def cell(x): return ' '.join(str(x).replace('|', '/').split())
    rows.append('| %s | %s | %s | %s |' % (bid, cell(m.get('summary', ''))[:330], cell(m.get('behaviour_changed', ''))[:260], cell(m.get('checks_run', {}).get('results', ''))[:260]))
p = '/verif/DESIGN.md'; s = open(p).read()
block = '<!-- benign:begin -->\n' + '\n'.join(rows) + '\n<!-- benign:end -->'
s = re.sub(r'<!-- benign:begin -->.*?<!-- benign:end -->', lambda _: block, s, flags=re.S)
open(p, 'w').write(s)
print(len(rows), 'rows')
