#!/bin/bash
# Regression over all kept seeded changes: each one against the quick check of the property it was written for.
# usage: tools/seeded_regress.sh [ids...]      output: one line per seeded change; exit 0 iff all are caught
cd "$(dirname "$0")/.."
ids=${@:-$(ls seeded)}
missed=0
for id in $ids; do
  prop=${id%%-*}
  if grep -q '"obsolete_since"' seeded/$id/meta.json 2>/dev/null; then echo "$id obsolete :: $(jq -r .obsolete_since seeded/$id/meta.json | cut -c1-160)"; continue; fi
  line=$(tools/mutant_eval.sh seeded/$id/patch.diff $prop 2>&1 | tail -1)
  case "$line" in *"exit=1 violations="[1-9]*) st=caught ;; *) st=MISSED; missed=$((missed+1)) ;; esac
  echo "$id $st :: $line" | cut -c1-260
done
echo "seeded regression: $missed missed"
[ $missed -eq 0 ]
