#!/bin/bash
# Reach probe: which lines of the property's anchor files do the profiles execute?
# Builds the gcov flavour of vsim from /repo's working tree, runs every profile for a short time,
# aggregates line counts over all translation units (templates are instantiated in several) and
# writes coverage/summary.json + coverage/unreached.txt.  Not part of any registered check.
# usage: tools/coverage.sh [seconds-per-profile (default 20)] [profiles...]
cd "$(dirname "$0")/.." || exit 2
secs=${1:-20}; shift
profiles=${*:-C01 C02 C03 C04 C05 C06 C07 C08 C09 C10 C11 C12 C13 C14 C15 C17 C18 C19 C20}
make -j16 FLAVOR=cov >/dev/null 2>build/tmp/cov-build.log || { tail -5 build/tmp/cov-build.log; exit 2; }
find build/cov -name '*.gcda' -delete
mkdir -p build/tmp coverage
for p in $profiles; do
  VSIM_TMP=build/tmp build/cov/vsim run --profile $p --tier quick --seed 20260926 --secs $secs --workers 12 --out build/tmp/cov-$p.json --known known_findings.txt --replay-dir build/tmp >/dev/null 2>&1
  echo "$p runs=$(jq .runs build/tmp/cov-$p.json) violations=$(jq '.violations|length' build/tmp/cov-$p.json)"
done
rm -rf build/tmp/gcov; mkdir -p build/tmp/gcov
( cd build/tmp/gcov && find ../../cov -name '*.gcda' | xargs -P 12 -n 8 gcov --json-format -p >/dev/null 2>&1 )
python3 tools/coverage_report.py build/tmp/gcov coverage
