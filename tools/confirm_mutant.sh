#!/bin/bash
# Confirms a seeded change in its scratch worktree: builds with the change, runs the repository's own suite
# (must show exactly the two known failures), runs the demonstration with and without the change.
# usage: tools/confirm_mutant.sh <worktree>     prints a summary; exit 0 iff everything is as claimed
wt=$1; cd $wt || exit 2
demo_cmd() { g++ -std=c++11 -DNDEBUG -I$wt/include -I$wt -I$wt/src MUTANT/demo.cc $wt/_build/src/libvata.a -o MUTANT/demo.bin 2>MUTANT/demo.build.log; }
suite() {
  ( cd _build/unit_tests && for t in ondriks_mtbdd_c_test timbuk_parser_test bdd_bu_tree_aut_test bdd_td_tree_aut_test explicit_tree_aut_test; do timeout 900 ./$t --log_level=test_suite 2>&1 | grep -E "error: in|fatal error: in" | sed 's/.*in "\([^"]*\)".*/\1/' ; done | sort -u | tr '\n' ' ' )
}
git stash list | grep -q . && { echo "stash not empty"; }
if git diff --quiet -- src include cli; then git apply MUTANT/patch.diff || { echo "patch does not apply"; exit 1; }; fi
[ -d _build ] || cmake -G Ninja -B _build -DCMAKE_BUILD_TYPE=RelWithDebInfo -DCMAKE_CXX_FLAGS=-Wno-error . >/dev/null
cmake --build _build -j12 2>&1 | grep -E "error|FAILED" | head -5
failing=$(suite)
echo "suite failures with change: [$failing]"
demo_cmd || { echo "demo does not compile"; cat MUTANT/demo.build.log | head; exit 1; }
( cd MUTANT && timeout 600 ./demo.bin > demo.with.log 2>&1 ); with=$?
git diff -- src include cli > MUTANT/.applied.diff
git apply -R MUTANT/.applied.diff
cmake --build _build -j12 2>&1 | grep -E "error|FAILED" | head -5
demo_cmd; ( cd MUTANT && timeout 600 ./demo.bin > demo.without.log 2>&1 ); without=$?
git apply MUTANT/.applied.diff
echo "demo exit with change: $with   without change: $without"
ok=0
[ "$failing" = "suite/aut_down_inclusion_opt_rec_nosim suite/aut_down_inclusion_rec_nosim " ] || { echo "SUITE DIFFERS FROM BASELINE"; ok=1; }
[ $with -ne 0 ] && [ $without -eq 0 ] || { echo "DEMO DOES NOT DISCRIMINATE"; ok=1; }
exit $ok
