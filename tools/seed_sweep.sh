#!/bin/bash
# False-alarm sweep: every quick check under several VERIF_SEED values on the unchanged tree.
# usage: tools/seed_sweep.sh "<seeds>" [props...]     (REPO may point to a snapshot of the repository)
cd "$(dirname "$0")/.."
seeds=${1:-"1 2 3 4 5"}; shift
props=${@:-C01 C02 C03 C04 C05 C06 C07 C08 C09 C10 C11 C12 C13 C14 C15 C17 C18 C19 C20}
bad=0; mkdir -p build/tmp
for s in $seeds; do
  for p in $props; do
    VERIF_SEED=$s ./check $p > build/tmp/sweep-$p-$s.log 2>&1; rc=$?
    if [ $rc -ne 0 ]; then bad=$((bad+1)); echo "== seed $s $p exit=$rc"; grep -A4 -E "^VIOLATION|HARNESS|Traceback" build/tmp/sweep-$p-$s.log | cut -c1-600 | head -24; mkdir -p build/tmp/sweep-replays; cp replays/$p-*.trace build/tmp/sweep-replays/ 2>/dev/null; else echo "seed $s $p ok"; fi
  done
done
echo "seed sweep: $bad non-zero exits"
[ $bad -eq 0 ]
