#!/usr/bin/env python3
"""prints the prompt for a sub-agent that writes a BENIGN change: behaviour the property leaves open is changed, the property still holds.
Used to test that the checks raise no alarm on code where the property holds (DESIGN.md section 8)."""
import json, sys
pid, wt = sys.argv[1], sys.argv[2]
variant = sys.argv[3] if len(sys.argv) > 3 else ""
prop = None
for l in open('/verif/properties.jsonl'):
    p = json.loads(l)
    if p['id'] == pid: prop = p
text = json.dumps(prop, indent=1, ensure_ascii=False)
print(f"""You are helping to evaluate a verification effort for the C++ library libvata (ondrik/libvata: nondeterministic finite tree and word automata; explicit and MTBDD-based encodings; antichain/congruence inclusion checking; simulation; reduction).

You have your own scratch git worktree of the repository at {wt} (a checkout of the current HEAD). Work ONLY inside {wt}. Do not read or touch /repo, /verif or any other directory outside {wt} (except standard system headers/tools). Do NOT use `git stash`.

Here is one semantic property the library is supposed to satisfy (JSON record):

{text}

YOUR TASK: write a realistic, BENIGN change to the library sources under {wt}/src, {wt}/include or {wt}/cli: a refactoring, optimisation or clean-up a maintainer could make that visibly CHANGES BEHAVIOUR THE PROPERTY LEAVES OPEN while the property (statement + quantifier, read literally) CONTINUES TO HOLD for every input, and while the library still compiles and the existing test suite passes exactly as before. Examples of behaviour a property may leave open (pick what fits THIS property; combine two or three if they are small): which numbers / names the states of a result get; the order in which rules, states or symbols are stored, iterated or printed; which representative of an equivalence class survives; whether extra unreachable / useless states or rules are kept or removed; a different but equally valid layout of dumped text (that the library's own parser still reads); which std::exception type and message reports a refused / unimplemented request; whether a result shares storage with its operand or is a deep copy; when caches are cleared and when unreferenced nodes are reclaimed; the exact contents of auxiliary out-parameters beyond what the property says about them; the order of evaluation / exploration of an algorithm; allocating more or less memory. {variant}

Requirements:
 1. The property must still hold after your change, for ALL inputs and histories. Argue this carefully in meta.json. If in doubt, choose a more conservative change.
 2. The change must be observable: write a small stand-alone C++ program demo.cc (public API, or internal headers under src/ if needed) that prints the behaviour that changed (e.g. the dump / the state numbers / the exception text) so that its OUTPUT DIFFERS between the unchanged tree and your change, and that additionally checks the property-relevant facts on a few inputs (e.g. language equality by brute-force tree / word enumeration) and prints PROPERTY-OK (exit 0) in both cases.
 3. Keep it small (typically 3-30 changed lines), do not touch the tests, and keep the existing test suite's picture unchanged. Build and run it like this:
      cd {wt} && cmake -G Ninja -B _build -DCMAKE_BUILD_TYPE=RelWithDebInfo -DCMAKE_CXX_FLAGS=-Wno-error . >/dev/null && cmake --build _build -j6 2>&1 | tail -3
      for t in ondriks_mtbdd_c_test timbuk_parser_test bdd_bu_tree_aut_test bdd_td_tree_aut_test explicit_tree_aut_test; do (cd _build/unit_tests && ./$t --log_level=test_suite) 2>&1 | grep -E "error|No errors"; done
    NOTE: on the UNCHANGED tree exactly two cases of bdd_bu_tree_aut_test already fail (suite/aut_down_inclusion_rec_nosim and suite/aut_down_inclusion_opt_rec_nosim, both with NotImplementedException); every other case passes. Your change must leave exactly this picture. (If a test pins down the behaviour you wanted to change, pick another behaviour.)
    Compile the demo against the built static library, e.g.
      g++ -std=c++11 -DNDEBUG -I{wt}/include -I{wt} demo.cc {wt}/_build/src/libvata.a -o demo
 4. When done, create the directory {wt}/BENIGN containing:
      patch.diff   - output of `git diff` for your change (library sources only)
      demo.cc      - the demonstration, with the exact compile/run command in a comment at the top
      meta.json    - {{"property": "{pid}", "summary": "<what the change does>", "behaviour_changed": "<what a client can observe to be different>", "why_property_still_holds": "<argument>", "demo_output_without_change": "...", "demo_output_with_change": "..."}}
    Leave the change APPLIED in the worktree when you finish, and make sure BENIGN/patch.diff applies cleanly to a fresh checkout of HEAD with `git apply`.

Report briefly what you did at the end.""")
