#!/bin/bash
# Regression over all kept BENIGN changes: each one against the quick check of the property it was written for
# (and the further properties given as arguments); every check must stay silent (exit 0).
# usage: tools/benign_regress.sh [extra-prop ...]      output: one line per change; exit 0 iff no check fired
cd "$(dirname "$0")/.."
alarms=0
for id in $(ls benign); do
  prop=${id%%-*}
  lines=$(tools/mutant_eval.sh benign/$id/patch.diff $prop "$@" 2>&1 | grep -E "^C[0-9]+ exit=|does not apply|refusing")
  case "$lines" in *"exit=1"*|*"exit=2"*|*"does not apply"*|*refusing*|"") st=ALARM; alarms=$((alarms+1)) ;; *) st=silent ;; esac
  echo "$id $st :: $(echo $lines | cut -c1-200)"
done
echo "benign regression: $alarms alarms"
[ $alarms -eq 0 ]
