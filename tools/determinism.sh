#!/bin/bash
# Determinism proof of the simulator (DESIGN.md 2.10): the same seeds, in separate processes,
# with different environment sizes (different initial stacks) and both flavours, must give
# byte-identical status / allocation fingerprint / observable digest / tick count.
# usage: tools/determinism.sh [seeds-per-profile] [base-seed]
set -e
cd "$(dirname "$0")/.."
N=${1:-25}; S=${2:-7}
mkdir -p build/tmp
make -j16 FLAVOR=plain >/dev/null && make -j16 FLAVOR=san >/dev/null && make -j16 FLAVOR=dbg >/dev/null || exit 2
rc=0
for fl in plain san dbg; do
  [ -x build/$fl/vsim ] || continue
  build/$fl/vsim selftest fingerprints --workers $N --seed $S > build/tmp/fp-$fl-1.txt
  PADDING=$(head -c 3000 /dev/zero | tr '\0' x) OTHER=1 build/$fl/vsim selftest fingerprints --workers $N --seed $S > build/tmp/fp-$fl-2.txt
  ( cd / && PADDING2=$(head -c 777 /dev/zero | tr '\0' y) VSIM_TMP=/verif/build/tmp /verif/build/$fl/vsim selftest fingerprints --workers $N --seed $S --known /verif/known_findings.txt > /verif/build/tmp/fp-$fl-3.txt )
  if cmp -s build/tmp/fp-$fl-1.txt build/tmp/fp-$fl-2.txt && cmp -s build/tmp/fp-$fl-1.txt build/tmp/fp-$fl-3.txt; then
    echo "determinism[$fl]: $(wc -l < build/tmp/fp-$fl-1.txt) seeds x 3 processes identical"
  else
    echo "determinism[$fl]: DIFFERENCES"; diff build/tmp/fp-$fl-1.txt build/tmp/fp-$fl-2.txt | head -5; diff build/tmp/fp-$fl-1.txt build/tmp/fp-$fl-3.txt | head -5; rc=1
  fi
done
exit $rc
