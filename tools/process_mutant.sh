#!/bin/bash
# confirm a sub-agent's change in its worktree, evaluate it against the given checks, keep it under seeded/<id>/
# usage: tools/process_mutant.sh <worktree> <seeded-id> <prop> [<prop>...]
cd "$(dirname "$0")/.."
wt=$1; id=$2; shift 2
mkdir -p build/tmp
tools/confirm_mutant.sh $wt > build/tmp/confirm-$id.log 2>&1; rc=$?
tail -4 build/tmp/confirm-$id.log
if [ $rc -ne 0 ]; then echo "NOT CONFIRMED ($id)"; exit 1; fi
conf=$(tail -3 build/tmp/confirm-$id.log | tr '\n' ' ')
tools/mutant_eval.sh $wt/MUTANT/patch.diff "$@" 2>&1 | tee build/tmp/eval-$id.log
mapfile -t lines < <(grep -E "^C[0-9]+ exit=" build/tmp/eval-$id.log)
python3 tools/keep_mutant.py $wt $id "$conf" "${lines[@]}"
