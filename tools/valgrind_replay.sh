#!/bin/bash
# valgrind tier (DESIGN.md 2.7 / 2.13): memcheck over a sample of seeds of the plain binary with
# the simulated heap switched to pass-through (real malloc), for uses of uninitialised values
# that happen not to change any output.  usage: tools/valgrind_replay.sh [seeds-per-profile] [profiles...]
cd "$(dirname "$0")/.."
N=${1:-5}; shift
PROFILES=${@:-C01 C02 C03 C04 C05 C06 C07 C08 C09 C10 C11 C12 C13 C14 C15 C17 C18 C19}
make -j16 FLAVOR=plain >/dev/null || exit 2
bad=0; n=0
for p in $PROFILES; do
  for s in $(seq 1 $N); do
    out=$(VSIM_PASSTHROUGH=1 VSIM_NO_REEXEC=1 VSIM_TMP=build/tmp valgrind -q --error-exitcode=99 --child-silent-after-fork=no build/plain/vsim one --profile $p --run-seed $((s * 7919)) --wall 600 2>&1)
    n=$((n+1))
    if echo "$out" | grep -q "status=1"; then :; else bad=$((bad+1)); echo "== $p seed $((s*7919))"; echo "$out" | head -30; fi
  done
done
echo "valgrind tier: $n runs, $bad with reports"
[ $bad -eq 0 ]
