#!/usr/bin/env python3
"""aggregates gcov --json-format output by source file: a line counts as reached if any translation unit executed it"""
import sys, os, json, gzip, glob, collections
src_dir, out_dir = sys.argv[1], sys.argv[2]
lines = collections.defaultdict(dict)        # file -> line -> max count
funcs = collections.defaultdict(dict)        # file -> (demangled name, start line) -> max count
for f in glob.glob(os.path.join(src_dir, '*.gcov.json.gz')):
    try: d = json.load(gzip.open(f, 'rt'))
    except Exception: continue
    for fe in d.get('files', []):
        name = os.path.normpath(fe['file'])
        if not name.startswith('/repo/'): continue
        for l in fe.get('lines', []):
            n = l['line_number']; c = l['count']
            if c > lines[name].get(n, -1): lines[name][n] = c
        for fn in fe.get('functions', []):
            key = (fn.get('demangled_name', fn['name']), fn['start_line'])
            c = fn['execution_count']
            if c > funcs[name].get(key, -1): funcs[name][key] = c
anchors = collections.defaultdict(set)
for l in open('/verif/properties.jsonl'):
    p = json.loads(l)
    for f in p['anchors']['files']: anchors[os.path.normpath('/repo/' + f)].add(p['id'])
summary = {}
for name in sorted(lines):
    tot = len(lines[name]); cov = sum(1 for c in lines[name].values() if c > 0)
    summary[name[len('/repo/'):]] = {'lines': tot, 'reached': cov, 'percent': round(100.0 * cov / tot, 1) if tot else 100.0, 'anchor_of': sorted(anchors.get(name, []))}
os.makedirs(out_dir, exist_ok=True)
json.dump(summary, open(os.path.join(out_dir, 'summary.json'), 'w'), indent=1)
with open(os.path.join(out_dir, 'unreached.txt'), 'w') as o:
    for name in sorted(funcs):
        if name not in anchors: continue
        miss = sorted((k for k, c in funcs[name].items() if c == 0), key=lambda k: k[1])
        if not miss: continue
        o.write('%s (anchor of %s)\n' % (name[len('/repo/'):], ' '.join(sorted(anchors[name]))))
        seen = set()
        for nm, ln in miss:
            short = nm.split('(')[0][-110:]
            if (short, ln) in seen: continue
            seen.add((short, ln)); o.write('   line %d  %s\n' % (ln, short))
anch = {k: v for k, v in summary.items() if v['anchor_of']}
tot = sum(v['lines'] for v in anch.values()); cov = sum(v['reached'] for v in anch.values())
print('anchor files: %d, instrumented lines %d, reached %d (%.1f%%)' % (len(anch), tot, cov, 100.0 * cov / max(tot, 1)))
for k, v in sorted(anch.items(), key=lambda kv: kv[1]['percent'])[:25]:
    print('  %5.1f%%  %4d/%4d  %s  [%s]' % (v['percent'], v['reached'], v['lines'], k, ' '.join(v['anchor_of'])))
