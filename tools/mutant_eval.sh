#!/bin/bash
# Applies a seeded change to /repo, runs the quick checks of the given properties, reverts.
# usage: tools/mutant_eval.sh <patch.diff> <prop> [<prop>...]      (VERIF_SEED honoured)
# prints one line per check: <prop> exit=<code> violations=<n> first-oracle=<...>
cd "$(dirname "$0")/.."
patch=$(realpath "$1"); shift
if ! git -C /repo diff --quiet; then echo "/repo has uncommitted changes; refusing"; exit 2; fi
git -C /repo apply "$patch" || { echo "patch does not apply"; exit 2; }
rm -rf build/tmp/evidence.bak; cp -r evidence build/tmp/evidence.bak
# on exit: revert /repo, restore the evidence, drop the traces of this evaluation and REBUILD (otherwise build/*/vsim stays the mutated binary)
trap 'git -C /repo checkout -- . ; rm -rf /verif/evidence; cp -r /verif/build/tmp/evidence.bak /verif/evidence; find /verif/replays -name "*.trace" -newer /tmp/.mutant_eval_stamp -delete 2>/dev/null; make -C /verif -j16 FLAVOR=plain >/dev/null 2>&1; make -C /verif -j16 FLAVOR=san >/dev/null 2>&1; make -C /verif -j16 FLAVOR=dbg >/dev/null 2>&1' EXIT
touch /tmp/.mutant_eval_stamp
mkdir -p build/tmp
for p in "$@"; do
  ./check $p > build/tmp/mut-$p.log 2>&1; rc=$?
  n=$(grep -c "^VIOLATION" build/tmp/mut-$p.log)
  first=$(grep -A1 "^VIOLATION" build/tmp/mut-$p.log | grep oracle= | head -1 | sed 's/^ *//' | cut -c1-160)
  echo "$p exit=$rc violations=$n $first"
done
