#!/bin/bash
# Applies a seeded change to the repository, runs the quick checks of the given properties, reverts.
# usage: tools/mutant_eval.sh <patch.diff> <prop> [<prop>...]      (VERIF_SEED honoured)
# The repository is $REPO (default /repo); with REPO pointing at a scratch copy and this script run from a snapshot of
# /verif (vp run --with-repo) several evaluations can run side by side without touching /repo or /verif.
# MUTANT_EVAL_NO_REBUILD=1 skips the rebuild after the revert (regression loops: the next evaluation rebuilds anyway).
# prints one line per check: <prop> exit=<code> violations=<n> first-oracle=<...>
ROOT="$(cd "$(dirname "$0")/.." && pwd)"; cd "$ROOT"
export REPO=${REPO:-/repo}
patch=$(realpath "$1"); shift
if ! git -C $REPO diff --quiet; then echo "$REPO has uncommitted changes; refusing"; exit 2; fi
git -C $REPO apply "$patch" || { echo "patch does not apply"; exit 2; }
mkdir -p build/tmp
rm -rf build/tmp/evidence.bak; cp -r evidence build/tmp/evidence.bak
stamp=build/tmp/.mutant_eval_stamp; touch $stamp
# on exit: revert the repository, restore the evidence, drop the traces of this evaluation and REBUILD (otherwise build/*/vsim stays the mutated binary)
trap 'git -C $REPO checkout -- . ; rm -rf "$ROOT/evidence"; cp -r "$ROOT/build/tmp/evidence.bak" "$ROOT/evidence"; find "$ROOT/replays" -name "*.trace" -newer "$ROOT/$stamp" -delete 2>/dev/null; [ -n "$MUTANT_EVAL_NO_REBUILD" ] || { make -C "$ROOT" -j16 FLAVOR=plain >/dev/null 2>&1; make -C "$ROOT" -j16 FLAVOR=san >/dev/null 2>&1; make -C "$ROOT" -j16 FLAVOR=dbg >/dev/null 2>&1; }' EXIT
for p in "$@"; do
  ./check $p > build/tmp/mut-$p.log 2>&1; rc=$?
  n=$(grep -c "^VIOLATION" build/tmp/mut-$p.log)
  first=$(grep -A1 "^VIOLATION" build/tmp/mut-$p.log | grep oracle= | head -1 | sed 's/^ *//' | cut -c1-160)
  echo "$p exit=$rc violations=$n $first"
done
