#!/bin/bash
# hit rate of one seeded change under one profile: applies the patch, builds the plain flavour, runs the profile without
# shrinking for <secs> seconds and prints runs / number of failing runs found (each of the 16 workers stops at 2), reverts.
# usage: tools/hitrate.sh <seeded-id> <profile> [secs] [seed]
cd "$(dirname "$0")/.."
id=$1; prof=$2; secs=${3:-20}; seed=${4:-1}
git -C /repo diff --quiet || { echo "/repo dirty"; exit 2; }
git -C /repo apply /verif/seeded/$id/patch.diff || exit 2
trap 'git -C /repo checkout -- . ; make -j16 FLAVOR=plain >/dev/null 2>&1' EXIT
make -j16 FLAVOR=plain >/dev/null 2>&1
build/plain/vsim run --profile $prof --tier quick --seed $seed --secs $secs --workers 16 --out build/tmp/hr.json --known known_findings.txt --replay-dir build/tmp/rp --no-shrink >/dev/null 2>&1
python3 -c "
import json; s=json.load(open('build/tmp/hr.json')); v=s['violations']
from collections import Counter
print('$id $prof runs=%d search_s=%.1f failing_runs=%d'%(s['runs'], s['search_s'], len(v)), dict(Counter((x.get('oracle'), x.get('site')) for x in v)))"
