#!/usr/bin/env python3
"""keep_mutant.py <worktree> <seeded-id> <confirm-log> <eval-lines...>: stores a confirmed seeded change under /verif/seeded/<id>/"""
import sys, os, json, shutil
wt, sid, confirm = sys.argv[1], sys.argv[2], sys.argv[3]
evals = sys.argv[4:]
d = '/verif/seeded/' + sid
os.makedirs(d, exist_ok=True)
for f in ('patch.diff', 'demo.cc'):
    shutil.copy(os.path.join(wt, 'MUTANT', f), os.path.join(d, f))
meta = json.load(open(os.path.join(wt, 'MUTANT', 'meta.json')))
meta['confirmed_by_me'] = {
    'how': 'tools/confirm_mutant.sh <scratch worktree>: build with the change, the repository\'s five unit-test executables run from _build/unit_tests (exactly the two baseline failures), demo compiled against the built libvata.a and run with the change and with the change reverted',
    'result': confirm,
}
meta['checks_run'] = {'how': 'tools/mutant_eval.sh patch.diff <props>: git -C /repo apply, ./check <prop> (quick tier, both flavours), git -C /repo checkout -- .', 'results': evals}
json.dump(meta, open(os.path.join(d, 'meta.json'), 'w'), indent=1)
print('kept', d)
