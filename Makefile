# Builds vsim from /repo's CURRENT working tree.
#   make FLAVOR=plain|san|cov|dbg      -> build/$(FLAVOR)/vsim
# Library sources are taken from src/CMakeLists.txt at make time, so a file
# added to / removed from the library is picked up.  -MMD dependency files make
# any header edit under /repo rebuild exactly what includes it.

REPO    ?= /repo
FLAVOR  ?= plain
B       := build/$(FLAVOR)
GUARD   := LIBVATA_VERIF

LIBSRCS := $(shell sed -n '/add_library(libvata/,/^)/p' $(REPO)/src/CMakeLists.txt | grep -o '[A-Za-z0-9_.-]*\.cc')
LIBOBJS := $(patsubst %.cc,$(B)/lib/%.o,$(LIBSRCS))

CLIOBJS := $(B)/cli/vata.o $(B)/cli/parse_args.o

SIMSRCS := $(wildcard sim/*.cc)
SIMOBJS := $(patsubst sim/%.cc,$(B)/sim/%.o,$(SIMSRCS))

CXX_plain := g++
CXX_san   := g++
CXX_cov   := g++
CXX_dbg   := g++
CXX       := $(CXX_$(FLAVOR))

OPT_plain := -O1 -g1
OPT_san   := -O1 -g1 -fsanitize=address,undefined -fno-sanitize-recover=undefined -fno-omit-frame-pointer -DVSIM_SAN=1
OPT_cov   := -O0 -g1 --coverage -DVSIM_COV=1
# libstdc++ debug mode: every container and iterator checks its preconditions (past-the-end dereference, invalidated
# or singular iterators, iterators of another container, unsorted ranges) and aborts with a diagnostic
OPT_dbg   := -O1 -g1 -D_GLIBCXX_DEBUG -D_GLIBCXX_DEBUG_PEDANTIC -DVSIM_DBG=1
OPT       := $(OPT_$(FLAVOR))

# as shipped: RelWithDebInfo => NDEBUG (DESIGN.md section 6)
LIBFLAGS := -std=c++11 -DNDEBUG -D$(GUARD) -fno-strict-aliasing -fPIC -I$(REPO)/include -w $(OPT)
SIMFLAGS := -std=c++17 -DNDEBUG -D$(GUARD) -fno-strict-aliasing -I$(REPO)/include -I$(REPO) -I$(REPO)/cli -Isim -Wall -Wno-unused-function -Wno-deprecated-declarations $(OPT)

all: $(B)/vsim

$(B)/lib/%.o: $(REPO)/src/%.cc
	@mkdir -p $(dir $@)
	$(CXX) $(LIBFLAGS) -MMD -MP -c $< -o $@

$(B)/sim/%.o: sim/%.cc
	@mkdir -p $(dir $@)
	$(CXX) $(SIMFLAGS) -MMD -MP -c $< -o $@

# the command-line tool, compiled into the harness with main renamed (compile-time seam, no /repo hook)
$(B)/cli/%.o: $(REPO)/cli/%.cc
	@mkdir -p $(dir $@)
	$(CXX) $(LIBFLAGS) -I$(REPO)/cli -Dmain=vata_cli_main -DstartTime=startTime_cli -MMD -MP -c $< -o $@

# the simulated heap reads block headers inside poisoned red zones: never instrumented
SIMHEAP_DEF_san := -DVSIM_SAN=1
$(B)/sim/simheap.o: sim/simheap.cc
	@mkdir -p $(dir $@)
	$(CXX) -std=c++17 -DNDEBUG -O1 -g1 -fno-builtin -fno-tree-loop-distribute-patterns -fno-omit-frame-pointer $(SIMHEAP_DEF_$(FLAVOR)) -Isim -Wall -MMD -MP -c $< -o $@

$(B)/vsim: $(LIBOBJS) $(SIMOBJS) $(CLIOBJS)
	$(CXX) $(OPT) -o $@ $(SIMOBJS) $(CLIOBJS) $(LIBOBJS) -lpthread

clean:
	rm -rf build

-include $(LIBOBJS:.o=.d) $(SIMOBJS:.o=.d) $(CLIOBJS:.o=.d)

.PHONY: all clean
