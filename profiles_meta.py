# Per-property metadata used by ./check when it writes the evidence files.
# Counts in the evidence come from the run; only the descriptive text lives here.

NOT_APPLICABLE = {
    "C16": "ExplicitLTS::computeSimulation is a pure function of its argument: it keeps all working memory in per-call pools, touches no process-wide state and compares no addresses; measured, its allocation trace and result are identical under every placement, reuse and noise setting. There is no schedule, fault or history for a simulator to vary (DESIGN.md section 4).",
}

COMMON_ASSUME = [
    "library built as shipped (-DNDEBUG, RelWithDebInfo): assertions are off",
    "a clean batch of seeded runs is evidence, not proof: the schedule / layout / history space is sampled",
    "reference models (sim/model.cc) are trusted; they are cross-checked against brute-force tree / word enumeration by `vsim selftest oracles`",
    "the simulated heap covers address orders and reuse patterns, not a particular production allocator",
]

def _m(level, rule, assumptions=(), budget=None, **kw):
    d = {"level": level, "rule": rule, "assumptions": COMMON_ASSUME + list(assumptions)}
    if budget: d["budget"] = budget
    d.update(kw)
    return d

Q = {"quick": {"plain": 22, "san": 8}, "thorough": {"plain": 600, "san": 300}}

META = {
 "C01": _m("exploration",
    "one evaluation = one simulated run: 1-3 clients, a drawn heap placement x reuse x noise policy, a generated pair (A,B) of explicit tree automata (<= 7 states, <= 5 ranked symbols, rank <= 2, rarely 3; B often derived from A) loaded by text or rule by rule, the inclusion selections issued in a drawn order (directly and through the CLI protocol of cli/operations.hh) while other clients load, mutate, copy and destroy automata and churn the heap. Oracle: exact bottom-up subset-construction inclusion; all 8 selections agree; a selection outside the eight may be refused with any exception or answer, but an answer must be the right verdict. A case is non-trivial and distinct by the hash of (A, B, selection, call path) once the reference produced a verdict. Also: monadic pairs (a word-automaton inclusion pair embedded as tree automata), a drawn bijection on the symbol names (registration order), dense pairs (6-12 rules per state), operands that are RESULTS of operations (trimming, union, intersection, renumbering, reduction, witness), a copy that still shares the rule storage and differs in final states only, and an operand OBJECT that got another value by assignment before the question is asked again (et_twist).",
    ["downward selections are exponential by construction: exhausting their tick budget (3*10^6 allocator events) is recorded as inconclusive, not as a hang; the upward selections have a 3*10^7 budget and exhausting it is a violation",
     "sim=yes selections are called only through the CLI's own sequence (sanitise, UnionDisjointStates, ComputeSimulation(numStates), CheckInclusion)"],
    {"quick": {"plain": 35, "san": 10}, "thorough": {"plain": 900, "san": 300}}),
 "C02": _m("exploration",
    "one run: generated operands with overlapping or sparse state numbers, empty operands, useless states; Union (no / both / one map), UnionDisjointStates (client makes the state sets disjoint first), Intersection and IntersectionBU with absent, empty and pre-filled (left by an earlier identical call) maps; operands possibly shared copy-on-write with other handles; afterwards operands and results are mutated / destroyed. Oracle: exact language equality with the model union / product; the reported maps are judged semantically (every result state is named; what it accepts as a root is what the operand state / pair it stands for accepts; no two operand states / pairs share one result state unless the call merges them); maps left by another call (same or other operands) must not change the result's language; operands unchanged rule for rule (the property says so); every live handle equals its model at the end. Distinct non-trivial case = hash of (A, B, operation). Also: 'siblings' (two copies of one automaton extended separately, then combined) and operand objects with a history (et_twist).",
    ["the language claim itself is a function of the inputs; simulation contributes the environment quantifier (layout decides product numbering, sharing, history)"], Q),
 "C03": _m("exploration",
    "one run: generated automata (1-6 states mostly, up to 40; language equality exact within a work bound, else by sampled membership in both directions) with the corner cases the property names (final states without rules, unreachable-but-rule-owning states, unproductive states, no final state); RemoveUnreachableStates / RemoveUselessStates (with and without map) / IsLangEmpty; results share storage with the operand, then either is mutated; the questions are then asked again of handles with a history (assigned over, moved, copied, modified in place). Oracle: language equality, reachability / usefulness post-conditions computed by the model on the read-back result, emptiness by the model. Distinct non-trivial case = hash of (A, operation). Also: the client keeps one translation map and hands it to some of its trimming calls one after the other (a pipeline that reuses one map).",
    [], Q),
 "C04": _m("exploration",
    "one run: generated automata (1-7 states, sometimes 17-40 so that the relation outgrows its initial 16x16 matrix), numbered densely either in visiting order (as the CLI does) or by a drawn bijection; downward simulation on the automaton, upward simulation on its useless-free part. Oracle: naive greatest fix-point from the definitions in the property, compared pair by pair through get(q,r). Distinct case = hash of the dense automaton and direction; counted separately when the relation is larger than the identity. Also: the handle's own object (when its states already are 0..n-1) instead of a re-indexed copy, asked again after a near relative was assigned over it; the returned relation handed on (move-constructed into another object) while the variable is reused for the relation of a renumbered copy.",
    ["precondition from the property: the occurring states are exactly 0..n-1 and n is passed"], Q),
 "C05": _m("exploration",
    "one run: generated automata with sparse or dense numbers, useless states and states duplicated to create simulation-equivalent final and non-final states; Reduce. Oracle: language equality (exact within a work bound, else sampled membership in both directions); result has no more states / rules than the input; every result state stands for a state of the input in the semantic sense (it accepts, as a root, exactly what some state of the input accepts there; checked for inputs of up to 10 states); operand keeps its language. Also: the same object reduced again after a near relative (same states, a rule or two tweaked) was assigned or moved over it or it was modified in place.",
    ["'the image of at least one state of A' is read semantically (the result state and the state it stands for accept the same trees as roots), so that neither the numbering of the result nor the equivalence that is quotiented is prescribed; a result state left without rules is therefore flagged only if the input has no state with an empty language"], Q),
 "C06": _m("exploration",
    "one run: automata over a process-wide or a private on-the-fly alphabet shared between clients; other symbols are registered between load and complement; alphabets with only nullary symbols, universal and empty languages. Oracle: S = dictionary content at the call; no tree over S is accepted by both (empty product) and every tree over S is accepted by one (universal automaton included in the tagged union), both by the exact model; no rule of the complement uses a symbol outside S. The complement is read by iteration and its symbol numbers are interpreted through the operand's alphabet. Also: short-lived private alphabets (et_complement_local: alphabet, automaton, further registrations, complement and result live inside one step; two to five such steps in a row with freshly drawn pools, so that an alphabet is born at the address of a dead one), and operand objects with a history (et_twist).",
    ["the construction enumerates choice functions: exhausting 3*10^6 allocator events is inconclusive"], Q),
 "C07": _m("exploration",
    "one run: the same generated pair loaded into bdd-bu and bdd-td (16-bit symbols), a third of the pairs shaped so that each child position of a binary rule carries several macro-states; implemented selections (bu: up, down-rec+sim; td: down-rec, down-rec-opt, each with / without simulation, the preorder obtained by the library's own bottom-up sequence) and unimplemented ones, directly and through the CLI protocol, with churn of diagrams in between. Oracle: exact model inclusion; a selection that is not among the implemented ones may throw any exception or answer correctly, never answer wrongly (the statement's wording). Also: monadic pairs, a drawn bijection on the symbol names (= BDD codes), dense pairs, operands that are results (union, intersection, trimming, conversion), operand objects with a history (bdd_twist), and the SYMBOLIC mode (bdd_sym_episode): the pair's symbols replaced by patterns over 0/1/X, loaded with LoadFromString(..., \"symbolic\"), all implemented selections judged against the expansion of the patterns (one rule per matching code).",
    ["bdd-bu up+sim is not exercised as a verdict: the library cannot produce the upward preorder it needs (it reports NotImplementedException through the CLI path, which is checked)"],
    {"quick": {"plain": 45, "san": 10}, "thorough": {"plain": 900, "san": 300}}),
 "C08": _m("exploration",
    "one run: histories of load / copy / assign / move / destroy and Union / UnionDisjointStates / Intersection / RemoveUnreachableStates / RemoveUselessStates / GetTopDownAut / ReindexStates over bdd-bu and bdd-td automata that share transition tables; a third of the clients start with a 'diamond' (two results derived from one base by Union / UnionDisjointStates or by copy + SetStateFinal, then combined with each other and the base). Oracle after every step: every live handle is dumped, read by the independent Timbuk reader and must denote its model language (exact); results equal model union / product / trimmed language; no useless state after RemoveUselessStates. Also: 'accumulator' histories (acc = copy of A; u = acc op B; acc = u; again), bdd_twist, and the SYMBOLIC mode (bdd_sym_episode): patterns with don't-cares; symbolic load / dump, dump-load-dump, Union (also with a copy), Intersection and both trimmings judged against the expanded model.",
    ["state numbers of all live BDD automata of one encoding are treated as one name space when the client establishes the 'disjoint state sets' precondition of UnionDisjointStates (automata sharing a table see each other's rules; see DESIGN.md section 6)"], Q),
 "C09": _m("exploration",
    "one run: generated NFA pairs (<= 7 states; several start states, start-and-final states, dead / unreachable states, symbols in one operand only), loaded after other clients registered unrelated symbols; antichains, congruence depth-first and breadth-first in a drawn order, directly with arbitrary overlapping numbering and through the CLI protocol; the antichain and the depth-first congruence algorithm also with a simulation preorder handed over through InclParam (the client sanitises the operands as cli/operations.hh does and supplies the reference model's forward simulation on their union: the greatest one, the identity, its restriction to pairs inside one operand, its restriction to smaller-to-bigger pairs). Oracle: exact subset-construction inclusion; all selections agree; a step that exceeds 2*10^7 allocator events is a hang. Also: operands that are RESULTS of operations (mirror images, unions, trimmed automata, mirror images of those) and operand objects with a history (fa_twist).",
    ["the selections with a simulation relation are read as part of 'the antichain algorithm' / 'the congruence algorithm' and of 'all implemented algorithm selections'; the library cannot compute a simulation for word automata (ExplicitFiniteAut::ComputeSimulation is not implemented, so `vata -r expl_fa -o sim=yes` is not exercised), the relation therefore comes from the reference model and is always a simulation preorder that respects final states",
     "the equivalence-checking flag of InclParam (CONGR_*_EQUIV_*) answers another question than inclusion and is not exercised"], Q),
 "C10": _m("exploration",
    "one run: generated NFAs (empty word accepted, several start states, product states with one initial component); Union, UnionDisjointStates, Intersection, Reverse, RemoveUnreachableStates, RemoveUselessStates, GetCandidateTree; results read back through DumpToString and the independent reader. Oracle: exact NFA language equality / inclusion by the model; operands keep their language. Also: chains in which the result of one operation (mirror images first) is an operand of the next, and operand objects with a history (fa_twist).",
    ["start symbols are not part of the language (C09's acceptance definition)"], Q),
 "C11": _m("exploration",
    "one run: 1-4 clients with interleaved histories of construct / load / copy / partial copy / assign / self-assign / move / AddTransition / CopyTransitionsFrom / SetStateFinal / SetStatesFinal / EraseFinalStates / Clear / SetStateStart / SetExistingStateStart / destroy / give-a-copy-to-another-client and library operations over explicit tree and finite automata; client aborts. Oracle: after every mutating step every live handle of every client is read back (iteration resp. dump) and equals its private model; a deciding operation repeated later on equal operands returns the same result. Non-trivial distinct case = hash of a repeated decision; distinct interleavings are counted by allocation fingerprint.",
    [], Q),
 "C12": _m("exploration",
    "one run: sequences of the five mutators (repeated rules, nullary rules, one symbol number with several arities, final states without rules) interleaved with multi-step views: an iterator, GetAcceptTrans(), operator[](q) advanced one ++ per step while sharing copies are mutated or destroyed by this or other clients and read-only observers are called on the viewed automaton. The end of a view is tested with operator== and operator!= alternately; both are evaluated and must be complementary. Oracle: each view yields exactly the model's rules, each once; ContainsTransition, GetUsedStates, GetFinalStates, IsStateFinal, AreTransitionsEmpty by definition on the model.",
    ["a client never mutates an automaton it is iterating"], Q),
 "C13": _m("fault_enumeration",
    "systematic part: for every small text shipped in automata/small_timbuk and automata/fail_timbuk (read through the real Util::ReadFile) EVERY truncation point 0..n, EVERY single-line drop / duplication / adjacent swap and EVERY zero-filled tail is applied and the damaged text is given to ParseString and to the loaders of all four encodings (run index -> work item, 48 faults per item); after those, EVERY single-byte substitution (every position x eleven values: NUL, 0xff, high bit flipped, each of ( ) , : - > blank newline) of the same texts is given to ParseString and to the explicit tree loader (528 faults per item; the other three loaders call the same parser first and get byte substitutions sampled only). Sampled part: generated descriptions (names from the full legal character set, nullary rules with and without parentheses, empty sections) get a strict round trip (parse, serialise+parse, load+dump per encoding, dump/load fix-point), then their complete single-fault space, then sampled byte flips, random byte strings and splices; the load / dump pair is drawn per text from the name-preserving overloads (text or parsed description; dictionary or weak translator over a dictionary; dump through a dictionary, a strict back-translator or DumpToAutDesc + Serialize); in half of the sampled runs a second client runs a short history of explicit, word or BDD automata (value operations and the library's operations), dumps several handles, is usually aborted, and every completed dump is reloaded: what comes back must be what was dumped (word automata: also the start states as GetStartStates() reports them). Oracle for damaged text: the call returns or throws a std::exception, within the tick budget, no monitor fires, every other live handle is untouched, and on success (all names expressible) dump/load/dump is a fix-point. One evaluation = one run; distinct non-trivial = distinct damaged texts.",
    ["one start arrow per start state in generated word-automaton texts (the dump writes one start symbol per start state)",
     "the fix-point after a damaged load is demanded only when every name of the loaded automaton is expressible in the format",
     "the arbitrary-byte-string clause is sampled, not enumerated"],
    {"quick": {"plain": 25, "san": 10}, "thorough": {"plain": 600, "san": 300}}),
 "C14": _m("exploration",
    "one run: ReindexStates through a weak translator (counter from anywhere), through injective-sparse / dense-bijective / identity / merging functors with and without final states, into a fresh automaton or into a destination that already holds rules and shares clusters with another handle; CollapseStates with total maps; TranslateSymbols with permuting / merging / fresh-name maps. Oracle: the result is exactly (old destination) union image, rule for rule; injective => same counts and language; merging => super-language; translator contents consistent; sharing peers keep their language. Also: operand objects with a history (et_twist).",
    [], Q),
 "C15": _m("exploration",
    "one run: generated automata incl. leaf-only, deep-only and unproductive-final corner cases; GetCandidateTree. Oracle: exact inclusion witness <= A; witness non-empty iff A non-empty; operand keeps its language. Also: several witness questions per simulated process, the same object asked again after it got another value (et_twist).",
    [], Q),
 "C17": _m("exploration",
    "one run: 1-3 clients hold MTBDDs with int and ordered-set leaves over <= 6 variables; construct with don't-cares, constant, copy, assign, self-assign, destroy, apply 1/2/3 with eight leaf functions (constant, non-commutative, projections), Project (max/min), Rename (monotone), ExtendWith, GetMtbddForPrefix, GetPaths. Oracle after every step, for every live diagram of every client: GetValue on all 256 total assignments equals the truth-table model; a == b exactly when the tables are equal; GetPaths partitions the assignments with the right values. Also: 'default twins' (one function built twice with value and default value exchanged, or a constant built both ways; assignment between the two handles; prefix extension and apply afterwards).",
    ["Project is exercised with idempotent, commutative, associative leaf functions only (its result is otherwise structure-dependent by design)"], Q),
 "C18": _m("exploration",
    "one run: 1-4 clients, histories restricted (in 4 of 5 runs) to the operations the property lists: construct / copy / assign incl. self-assign / apply / destroy, with client aborts, LIFO address reuse, scribble-on-free and poisoning. Oracle after every step: every live diagram still returns, for all 256 assignments, what it returned when it was created (whether a fresh result is the right function is C17's question); the two unique tables (read through the friend-specialisation seam) hold at least the canonical nodes of the live functions (no premature release; how soon unreferenced nodes go away is left open); after the last handle is gone they are back at their baseline. A fifth of the runs add the other operations, half of those re-project one operand through one pooled functor after the first projection died.",
    [], Q),
 "C19": _m("exploration",
    "one run, after unrelated history of another client: (i) a generated pair and its twin (bijective renaming, shuffled rule order, other symbol registration order, fresh alphabet): all eight inclusion verdicts equal across twins and variants, emptiness equal, downward / upward simulation of the twin is the renamed image, Reduce / trimming sizes equal; (ii) the laws A<=A, A<=AuB, AnB<=A, both products equal, transitivity, least upper bound, A equivalent to its reduced / trimmed / re-indexed / dumped-and-reloaded forms, each with a drawn selection; (iii) corpus pairs from tests/aut_timbuk_smaller and automata/*.txt with the repository's expected verdicts, tests/fa_timbuk_armc (three NFA algorithms, twins), automata/moderate_artmc_timbuk. No reference model is used.",
    ["downward selections on corpus automata may exhaust their budget: inconclusive, counted"],
    {"quick": {"plain": 25, "san": 8}, "thorough": {"plain": 900, "san": 300}}),
 "C20": _m("exploration",
    "one run = one run of a drawn other profile (all operations of all encodings), judged only by the memory / UB monitors: AddressSanitizer + UBSan on the poisoned simulated heap with immediate address reuse (san flavour), libstdc++ debug mode over the whole program (dbg flavour: checked containers and iterators; past-the-end / singular / invalidated iterators, iterators of different containers, empty-container access, out-of-range operator[]), crash and non-std-exception detection, and the noise differential (same layout seed, other memory and stack noise => byte-identical observables; a difference proves a read of indeterminate memory). Non-trivial distinct cases are those of the drawn profile.",
    ["UB that neither sanitizer instruments nor changes output is not seen (e.g. isspace on negative char)"],
    {"quick": {"plain": 12, "san": 25, "dbg": 12}, "thorough": {"plain": 300, "san": 900, "dbg": 300}}),
}

# Quick tier: the search budget is a number of simulated runs per flavour (about 80 % of what an idle 16-core machine does in the
# nominal time of the budget table), so that the work done - and the evidence written - does not depend on how loaded or how fast
# the machine is; the nominal time times QUICK_TIME_CAP is only the upper limit.  The thorough tier is time-based.
QUICK_TIME_CAP = 2.5
RUNS_QUICK = {
 "C01": {"plain": 45000, "san": 2200},
 "C02": {"plain": 140000, "san": 5400},
 "C03": {"plain": 140000, "san": 6000},
 "C04": {"plain": 130000, "san": 5700},
 "C05": {"plain": 140000, "san": 5800},
 "C06": {"plain": 160000, "san": 6300},
 "C07": {"plain": 31000, "san": 1200},
 "C08": {"plain": 14000, "san": 920},
 "C09": {"plain": 75000, "san": 3600},
 "C10": {"plain": 130000, "san": 5800},
 "C11": {"plain": 87000, "san": 4200},
 "C12": {"plain": 170000, "san": 6800},
 "C13": {"plain": 9000, "san": 400},
 "C14": {"plain": 170000, "san": 6400},
 "C15": {"plain": 160000, "san": 6500},
 "C17": {"plain": 19000, "san": 1000},
 "C18": {"plain": 24000, "san": 1400},
 "C19": {"plain": 13000, "san": 780},
 "C20": {"plain": 25000, "san": 8000, "dbg": 5000},
}
